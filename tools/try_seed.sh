#!/bin/sh
# tools/try_seed.sh <seedID> <checkID> [tier]: applies the seeded change to /repo, runs the check, reverts.
S=$1; C=$2; T=${3:-quick}
cd /repo && git apply /verif/seeded/$S/patch.diff || { echo "$S: patch does not apply"; exit 2; }
cd /verif && bin/check $C $T > /tmp/try_$S_$C.out 2>&1; rc=$?
cd /repo && git checkout -- . 
cd /verif
n=$(grep -c '^VIOLATION' /tmp/try_$S_$C.out)
echo "seed=$S check=$C tier=$T exit=$rc violations=$n"
grep -A1 '^VIOLATION' /tmp/try_$S_$C.out | grep clause | head -3
rm -rf /verif/replays/$C
