#!/usr/bin/env python3-vt
"""Validates MANIFEST.json and every evidence file against the schemas in /root/.vp."""
import json,glob,sys,jsonschema
ok=True
m=json.load(open('/verif/MANIFEST.json')); jsonschema.validate(m,json.load(open('/root/.vp/MANIFEST.schema.json')))
es=json.load(open('/root/.vp/EVIDENCE.schema.json'))
for f in sorted(glob.glob('/verif/evidence/*.json')):
    try:
        e=json.load(open(f)); jsonschema.validate(e,es)
        c=e['coverage']
        print(f.split('/')[-1], e['tier'], 'states',c.get('states'),'transitions',c.get('transitions'),'validated',c.get('traces_validated_against_impl'),'exhaustive',c.get('exhaustive'),'samples',len(c.get('samples') or []))
    except Exception as ex:
        ok=False; print("INVALID",f,str(ex)[:300])
sys.exit(0 if ok else 1)
