#!/bin/sh
# tools/all_seeds.sh [tier]: applies every kept seeded change to /repo in turn, runs the check that owns it
# (meta.json detection.caught_by_check, by default the check of the seed's property), undoes it, and prints one
# line per seed (exit=1 with violations = caught).
cd "$(dirname "$0")/.."
for d in seeded/C*; do
  s=$(basename $d); c=$(echo $s | cut -c1-3)
  if python3 -c "import json,sys; sys.exit(0 if json.load(open('$d/meta.json')).get('obsolete') else 1)" 2>/dev/null; then echo "seed=$s obsolete (see meta.json)"; continue; fi
  by=$(python3 -c "import json,sys; print(json.load(open('$d/meta.json')).get('detection',{}).get('caught_by_check','$c'))" 2>/dev/null || echo $c)
  tools/try_seed.sh $s $by ${1:-quick} 2>&1 | head -2 | cut -c1-260
done
