#!/bin/sh
# tools/all_seeds.sh [tier]: applies every kept seeded change to /repo in turn, runs the check of its property,
# undoes it, and prints one line per seed (exit=1 with violations = caught).
cd "$(dirname "$0")/.."
for d in seeded/C*; do
  s=$(basename $d); c=$(echo $s | cut -c1-3)
  tools/try_seed.sh $s $c ${1:-quick} 2>&1 | head -2 | cut -c1-260
done
