#!/usr/bin/env python3
"""Regenerates /verif/MANIFEST.json from the table below (kept next to the checks it describes)."""
import json
ids=[json.loads(l)['id'] for l in open('/verif/properties.jsonl')]
ENGINE="choice-point explorer"
C={}
def check(id,text,note,technique,design):
    C[id]={"property_id":id,"quick_cmd":f"bin/check {id} quick","thorough_cmd":f"bin/check {id} thorough","evidence_file":f"evidence/{id}.json",
      "replay_cmd_template":f"bin/check {id} --replay {{path}}","engine":ENGINE,
      "level_claimed":{"category":"model_checking","text":text,"design_ref":design},"level_note":note,"technique":technique}
check("C01","bounded-exhaustive: every schema with <=2 (quick) / <=3 (thorough) keyword instances of the alphabet x every value of the value list, under both map-iteration orders, is run through VisitJSON and IsMatching and compared with an independent draft-4/OAS3 evaluator",
 "trusts the reference evaluator mc/ref/jsonschema.go; abstains where the strict and the repository's documented reading of null disagree",
 "bounded exhaustive enumeration of (schema,value) pairs on the real code against a reference model","3 C01")
check("C12","bounded-exhaustive: every schema of the extended alphabet (formats, uncompilable pattern, discriminators) with <=2/<=3 keyword instances x every value is validated in all 12 mode combinations and through the IsMatching helpers; verdicts must agree and every returned SchemaError's pointer must resolve to the value it quotes",
 "relational oracle (default mode is the yardstick); errors nested as Origin are not asserted; schema-defect errors (uncompilable pattern) quote no value and are exempt from the value clause",
 "bounded exhaustive enumeration of (schema,value,mode) on the real code with a relational oracle","3 C12")
check("C19","bounded-exhaustive: every schema of the extended alphabet with <=2/<=3 keyword instances x every marker-carrying value; every *SchemaError reachable from the result of each standalone mode and of ValidateRequest/ValidateResponse (reason-only customiser, details disabled, single and multi-error) is searched for the markers in Reason and in Error()",
 "marker taint search; object keys are not values; evidence lists the reason construction sites reached",
 "bounded exhaustive enumeration on the real code with an invariant (taint search) on every reachable error","3 C19")
check("C02","bounded-exhaustive over file forests: kind(10) x position x graph shape(24: direct, chains, diamond, self/mutual cycles, file-local refs, same name in two files, dangling, wrong kind, pure loops) x layout(3) x spelling(4) x entry point(5); the loaded document expanded through its references to depth 3 must equal the raw JSON expanded by an independent resolver; bad references must fail",
 "trusts the reference resolver mc/ref/refs.go (RFC 3986 + JSON pointer) and the in-memory reader; quick tier takes the full placement product at two representative positions per kind and the default placement at every position; thorough takes the full product under both map orders",
 "bounded exhaustive enumeration of reference graphs on the real loader against a reference resolver","3 C02")
check("C11","bounded-exhaustive monitor: an external reference in 12 spellings x whole-file/fragment planted at each of the 121 reference positions x 5 entry points x switch on/off, with reader-answer deviations (error, garbage); every URL handed to ReadFromURIFunc must be the root (switch off) or derived from a reference in an already returned document (switch on)",
 "in-memory reader only; locations compared modulo inherited scheme",
 "bounded exhaustive enumeration with a monitor on every environment read; deviation-bounded reader answers","3 C11")
check("C16","bounded-exhaustive over the C02 forests that load: InternalizeRefs + marshal must leave only internal references, reload with external references disallowed, keep the Validate verdict and keep every reference's content (reference-erased expansions to depth 4 equal)",
 "relational oracle between the original and the internalised document; cuts of cyclic expansions match anything",
 "bounded exhaustive enumeration of multi-file documents with a relational (before/after) oracle","3 C16")
check("C20","bounded-exhaustive single mutations of the skeleton (every node x 61 replacement values incl. 49 adversarial $ref forms, deletion, every byte prefix, structural byte flips, YAML renderings and YAML-only token documents) and every C02 forest, x entry point x switch: Load, Validate, json/yaml Marshal and InternalizeRefs must return within the step budget",
 "termination by instrumented step budget; worker deaths attributed to the executing vector; quick tier thins the $ref adversaries at non-reference nodes to a fixed 1-in-8 slice",
 "bounded exhaustive mutation enumeration on the real code with a returns-normally invariant (panic, step budget, worker death)","3 C20")
check("C03","bounded-exhaustive over the specifications' field tables: for each of 30 OpenAPI 3.0.3 and 10 Swagger 2.0 object kinds every single field, every pair (thorough: triples) and all fields, x extension variants x JSON/YAML input: marshal(load(D)) == D, marshalling is idempotent through JSON and through YAML",
 "field tables and sample values are written from the specifications; documents the library refuses to parse are skipped and counted",
 "bounded exhaustive enumeration of field subsets on the real (un)marshallers with a round-trip oracle","3 C03")
check("C04","bounded-exhaustive: the conforming skeleton under all 64 option sets, and 80 single-violation rule mutations x every inline location of the rule's subject x 64 option sets; rejected iff no enabled option governs the rule",
 "rule table mc/checks/c04.go (mutation purity, governing option); abstains for the uncompilable-pattern rule when pattern validation is off but examples validation is on",
 "bounded exhaustive enumeration of (rule, location, option set) on the real validator against a rule-table model","3 C04")
check("C05","bounded-exhaustive over the legal in/style/explode table (17 cells) x 13 schema shapes x values x presence classes x required x allowEmptyValue, with reversed property order and descending map order as deviations: decoded value == serialised value, verdict == reference evaluator, missing/empty/garbage error kinds",
 "reference serialiser mc/ref/style.go and evaluator; non-invertible (cell,value) pairs skipped and counted; decoded value observed through the verif hook",
 "bounded exhaustive enumeration of serialised parameters on the real decoder against an inverse-function and a reference model","3 C05")
check("C06","bounded-exhaustive: (A) every set of <=3 declared media types x 13 Content-Type headers x marker bodies x required: the entry chosen by the documented precedence decides; (B) object bodies in json, urlencoded (5 array encodings), multipart (text and JSON parts) x required lists with readOnly/writeOnly x unparsable field x ExcludeReadOnlyValidations: decoder returns the value, verdict == reference evaluator (request reading)",
 "selection model mc/ref/content.go, reference encoders, reference evaluator with request reading",
 "bounded exhaustive enumeration of request bodies on the real validator against precedence and evaluator models","3 C06")
check("C07","bounded-exhaustive truth table: 8 security list shapes (operation and document level) x AuthenticationFunc nil/set with every per-call answer explored at call time x path-level and operation-level parameter sets incl. override and same-name-other-location x request values x body x 8 option sets; pass/fail, the multiset of failing parts in multi-error mode and the callback sequence are compared with the model",
 "truth-table model mc/checks/c07.go written from the property statement",
 "bounded exhaustive enumeration of configurations and environment (callback) answers on the real validator against a truth-table model","3 C07")
check("C08","bounded-exhaustive: every set of <=3 response keys x 12 status codes x GET/HEAD x declared/received headers x content types x 6 bodies x option sets; status selection, header rules, content selection and response-reading evaluation are compared with the model; the body must be readable afterwards",
 "selection models mc/ref/content.go, reference evaluator in response reading; quick tier varies one option at a time",
 "bounded exhaustive enumeration of responses on the real validator against selection and evaluator models","3 C08")
check("C09","bounded-exhaustive: every validated document with 1-2 (thorough 1-3) templates over {a,b,{x},{y}} x method sets x 5 server forms; every request path of the path alphabet under matching and non-matching prefixes x 3 methods, origin-form and absolute-form; both routers, legacy under both map orders; four invariants against an independent segment matcher",
 "independent matcher mc/ref/route.go; server model by listed prefixes; paths with empty segments only for no-panic and operation identity",
 "bounded exhaustive enumeration of (document, request) on both routers with invariants and an independent matcher","3 C09")
check("C10","bounded-exhaustive hostile traffic: 45 schemas (incl. the legal-but-unusual shapes) at every traffic-reachable position (19 parameter cells, 10 body media types, response headers by schema/content, response bodies), gated by Validate, x 30 texts / 30 raw queries / 27 bodies x Content-Type headers x methods x paths x status codes x option sets, through both routers, ValidateRequest, ConvertErrors, ValidateResponse, the middleware: each call must return within the step budget",
 "returns-normally invariant (panic, instrumented step budget, worker death); quick tier thins schemas for the body and response families",
 "bounded exhaustive enumeration of (document feature, position, traffic) on the real code with a returns-normally invariant","3 C10")
check("C13","explicit-state over request histories: for every operation shape with defaults (4 parameter kinds incl. 5 array serialisations, 8 body schemas incl. allOf/oneOf/anyOf over objects and arrays) x every presence pattern x SkipSettingDefaults x body-reading authentication callback x client/server-style request: validate, next handler reads, validate again, read again; every intermediate request state is compared with the reference apply-defaults",
 "reference apply-defaults mc/checks/c13.go; the second validation uses a fresh input for the forwarded request",
 "explicit-state exploration of validate/read histories on the real validator against a reference state","3 C13")
check("C14","explicit-state over handler histories: every sequence of <=4 (thorough <=6) Header/WriteHeader/Write/Flush calls x 4 document variants (constraint at operation level, path level, request body, document security) x request class x strict x custom/default callbacks x Flusher or not, through Validator.Middleware and the older ValidationHandler; the same handler run against the harness writer defines the intended response",
 "client writer mirrors net/http; response validity is ValidateResponse applied to the intended response; strict equality on (status, body)",
 "explicit-state exploration of handler-call histories on the real middleware with a differential oracle","3 C14")
check("C17","bounded-exhaustive: a Swagger 2.0 skeleton plus every single feature (quick) / every compatible pair of features (thorough) out of ~110 feature instances; ToV3 must validate and keep the API-description normal form, FromV3(ToV3(d)) must keep it too and only use Swagger 2.0 reference locations; under both map orders",
 "normal form mc/ref/apinf.go (fields without counterpart excluded; shared objects dereferenced; schema references by name)",
 "bounded exhaustive enumeration of documents on the real converters against a normal-form model","3 C17")
check("C18","bounded-exhaustive over Go types: every unnamed type of the grammar (16 leaf kinds, pointer, slice, map, one- and two-field structs with JSON tags) within a constructor budget of 2 (quick) / 3 (thorough), built by reflection, plus 21 hand-declared named/embedding/recursive types; boundary values per kind with one field varied at a time; three generator option sets; the encoding/json output of every value must validate against the generated schema once the returned component map is installed in a document and loaded",
 "encoding/json is the other program; nil slices/maps and values encoding as null are excluded as the property says; named types are a listed set, not an enumeration",
 "bounded exhaustive enumeration of (type, value, options) relating two programs (encoding/json and the schema generator)","3 C18")
check("C15","three parts over one operation alphabet on a shared loaded document, its routers and schema: (1) frame condition, every operation alone leaves a deep structural hash of the shared state unchanged; (2) controlled cooperative scheduler, 9 colliding scenarios of 2-3 threads x 1-2 operations, scheduling points at sync operations (vsync shim), at accesses to package-level variables (instrumented) and between finding and using a route, all interleavings with <=2 (quick) / <=3 (thorough) preemptions, blocking and deadlock modelled, every call must return its stand-alone verdict; (3) a free-running -race pass for all pairs",
 "scheduler sees sync operations, package-level variable accesses and operation boundaries only; heap races between those points are left to the frame condition and to the race detector (a detector, not a proof)",
 "stateless exploration of thread interleavings under a controlled scheduler with a preemption bound, plus frame-condition hashing and a separate race-detector pass","3 C15")
NA_REASON="check not built yet (work in progress; see DESIGN.md section 5)"
m={"version":1,"setup_cmd":"bin/setup",
 "hooks":{"guard":"verif","enable":"go build -tags verif -overlay <generated> (bin/check does it on every invocation, regenerating the overlay from /repo's working tree)","baseline_off_cmd":"bin/baseline","source_commits":["4b7cd63"],"add_only":True},
 "engines":[{"name":"controlled scheduler","path":"mc/checks/c15.go + mc/hooksrc/verifhook/vsync","serves_properties":["C15"],"kind_free_text":"cooperative scheduler over goroutines parked on channels; decisions are explorer choice points, switching away from a runnable thread costs one deviation (preemption bound)"},{"name":ENGINE,"path":"mc/explore","serves_properties":sorted(C),"kind_free_text":"stateless depth-first enumeration of choice vectors with replay-by-prefix over the real implementation; deviation-bounded environment answers (map iteration order, reader answers, callbacks, schedules); 16 worker processes sharded by generation prefix; build-time instrumentation overlay owns map order and step budget"}],
 "checks":[C[k] for k in sorted(C)],
 "not_applicable":[{"property_id":i,"reason":NA_REASON} for i in ids if i not in C]}
json.dump(m,open('/verif/MANIFEST.json','w'),indent=1)
print("claimed:",sorted(C))
