#!/bin/sh
# tools/verify_seed.sh <ID> <demo-dir> : confirms a seeded change in a scratch worktree of /repo HEAD:
#  patch applies, library builds, the repository suite still passes its stable baseline,
#  the demo fails with the patch and passes without it. Writes /verif/seeded/<ID>/{patch.diff,demo_test.go,notes.md,verify.log}
ID=$1; DEMO_DIR=$2; SRC=${3:-/tmp/seed/out/$ID}
export GOFLAGS=-mod=mod GOPROXY=off GOSUMDB=off GOTOOLCHAIN=local
W=/tmp/seedv/${4:-$ID}
rm -rf $W; mkdir -p /tmp/seedv
git -C /repo worktree add -q --detach $W HEAD || exit 2
OUT=/verif/seeded/${4:-$ID}; mkdir -p $OUT
LOG=$OUT/verify.log; : > $LOG
cd $W
if ! git apply $SRC/patch.diff 2>>$LOG; then echo "$ID: PATCH DOES NOT APPLY" | tee -a $LOG; git -C /repo worktree remove --force $W; exit 1; fi
go build ./... >>$LOG 2>&1 || { echo "$ID: BUILD FAILS" | tee -a $LOG; git -C /repo worktree remove --force $W; exit 1; }
# suite with patch: compare with stable baseline
go test -json -vet=off -count=1 ./... 2>/dev/null > /tmp/seedv/$ID.json
python3 - /tmp/seedv/$ID.json >>$LOG <<'PY'
import json,sys
passed=set()
for ln in open(sys.argv[1]):
    try: e=json.loads(ln)
    except Exception: continue
    if e.get('Test') and e.get('Action')=='pass': passed.add(e['Package']+'::'+e['Test'])
base=json.load(open('/root/.vp/BASELINE.json'))['stable_pass']
missing=[t for t in base if t not in passed]
print("suite with patch: stable tests not passing:",len(missing),missing[:10])
sys.exit(1 if missing else 0)
PY
SUITE=$?
cp $SRC/demo_test.go $W/$DEMO_DIR/zz_seed_demo_test.go
go test -vet=off -count=1 ./$DEMO_DIR/ -run 'Seed|Demo|C[0-9][0-9]' >>$LOG 2>&1; WITH=$?
go test -vet=off -count=1 ./$DEMO_DIR/ >/dev/null 2>&1; 
git apply -R $SRC/patch.diff
go test -vet=off -count=1 ./$DEMO_DIR/ -run 'Seed|Demo|C[0-9][0-9]' >>$LOG 2>&1; WITHOUT=$?
cd /; git -C /repo worktree remove --force $W; rm -f /tmp/seedv/$ID.json
echo "$ID: suite_with_patch_rc=$SUITE demo_with_patch_rc=$WITH demo_without_patch_rc=$WITHOUT" | tee -a $LOG
if [ $SUITE = 0 ] && [ $WITH != 0 ] && [ $WITHOUT = 0 ]; then
  cp $SRC/patch.diff $SRC/demo_test.go $SRC/notes.md $OUT/ 2>/dev/null; echo "$ID: CONFIRMED" | tee -a $LOG; exit 0
fi
echo "$ID: NOT CONFIRMED" | tee -a $LOG; exit 1
