#!/bin/sh
# runs the thorough tier of every check, one after the other; one summary line per check
cd "$(dirname "$0")/.."
for c in C01 C03 C04 C05 C06 C07 C08 C13 C14 C17 C18 C19 C12 C15 C11 C09 C02 C16 C10 C20; do
  start=$(date +%s)
  out=$(bin/check $c thorough 2>&1); rc=$?
  end=$(date +%s)
  echo "== $c rc=$rc wall=$((end-start))s $(echo "$out" | grep "^$c thorough" | cut -c1-260)"
  echo "$out" | grep -E "^VIOLATION|clause=|MACHINERY|NONDET" | head -12
done
