// Package verifhook is injected into the kin-openapi module by `go build -overlay` (it does not
// exist in /repo). The instrumented copies of the library sources call into it so that the checker
// owns map iteration order and can bound the number of steps of one execution.
package verifhook

import (
	"fmt"
	"runtime"
	"sort"
)

// Steps counts function entries and loop iterations of instrumented library code since Reset.
var Steps int64

// Budget is the step budget of one execution (0 = unlimited).
var Budget int64

// MaxSteps is the largest Steps value seen at a Reset.
var MaxSteps int64

// Order is the map iteration policy: 0 ascending keys, 1 descending keys, 2 rotated by one.
var Order int

// RangeCalls counts instrumented map iterations (evidence that the seam is live).
var RangeCalls int64

// StepBudgetExceeded is the sentinel panic raised when an execution exceeds its step budget.
type StepBudgetExceeded struct{ Steps int64 }

func (s StepBudgetExceeded) Error() string {
	return fmt.Sprintf("verifhook: step budget exceeded (%d steps)", s.Steps)
}

// Reset starts a new execution.
func Reset(budget int64, order int) {
	if Steps > MaxSteps {
		MaxSteps = Steps
	}
	Steps, Budget, Order = 0, budget, order
}

// ExitOnBudget makes an exhausted budget end the goroutine (runtime.Goexit) instead of panicking. The harness sets it
// while it runs an execution in a goroutine of its own: a panic that has to unwind a runaway recursion through
// recover-and-repanic frames (encoding/json inside MarshalJSON methods) takes time quadratic in the depth.
var ExitOnBudget bool

// Exceeded and ExceededPCs report an exhausted budget in ExitOnBudget mode (innermost 400 frames).
var Exceeded bool
var ExceededPCs []uintptr

// Enter is called at every function entry and loop head of instrumented code.
func Enter() {
	Steps++
	if Budget > 0 && Steps > Budget {
		s := Steps
		Budget = 0 // deferred library code must be able to unwind
		if ExitOnBudget {
			pcs := make([]uintptr, 400)
			ExceededPCs = pcs[:runtime.Callers(1, pcs)]
			Exceeded = true
			runtime.Goexit()
		}
		panic(StepBudgetExceeded{s})
	}
}

// KV is one map entry.
type KV[K comparable, V any] struct {
	K K
	V V
}

// Pairs snapshots m in the order chosen by the checker.
func Pairs[M ~map[K]V, K comparable, V any](m M) []KV[K, V] {
	RangeCalls++
	out := make([]KV[K, V], 0, len(m))
	for k, v := range m {
		out = append(out, KV[K, V]{k, v})
	}
	if len(out) < 2 {
		return out
	}
	if ks, ok := any(out).([]KV[string, V]); ok {
		sort.Slice(ks, func(i, j int) bool { return ks[i].K < ks[j].K })
	} else {
		strs := make(map[K]string, len(out))
		for _, e := range out {
			strs[e.K] = fmt.Sprintf("%T:%v", e.K, e.K)
		}
		sort.SliceStable(out, func(i, j int) bool { return strs[out[i].K] < strs[out[j].K] })
	}
	switch Order {
	case 1:
		for i, j := 0, len(out)-1; i < j; i, j = i+1, j-1 {
			out[i], out[j] = out[j], out[i]
		}
	case 2:
		first := out[0]
		copy(out, out[1:])
		out[len(out)-1] = first
	}
	return out
}

// ---- scheduling seam (C15) ----

// Scheduler is attached by the controlled-scheduler harness. When nil, the vsync shim delegates to
// the real sync package and Yield is a no-op.
type Scheduler interface {
	// Point is a scheduling point of the calling thread; it returns when the thread is scheduled again.
	Point(kind string, obj any)
	// Block parks the calling thread until Wake(obj) (it returns when the thread runs again).
	Block(obj any)
	// Wake makes the threads blocked on obj runnable.
	Wake(obj any)
}

// Sched is the attached scheduler (nil = free running).
var Sched Scheduler

// YieldPoints counts the executed Yield calls (evidence that the seam is live).
var YieldPoints int64

// Yield is inserted before every statement that touches a package-level variable.
func Yield(name string) {
	if Sched != nil {
		YieldPoints++
		Sched.Point("global:"+name, nil)
	}
}
