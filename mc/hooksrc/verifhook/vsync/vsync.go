// Package vsync stands in for package sync in the instrumented library sources (import rewrite by the
// overlay). Without an attached scheduler every type delegates to the real sync package; with one,
// every operation is a scheduling point and blocking is modelled, so that a controlled scheduler can
// enumerate interleavings.
package vsync

import (
	"sync"

	"github.com/getkin/kin-openapi/verifhook"
)

// Mutex mirrors sync.Mutex.
type Mutex struct {
	real sync.Mutex
	held bool
}

func (m *Mutex) Lock() {
	s := verifhook.Sched
	if s == nil {
		m.real.Lock()
		return
	}
	s.Point("Mutex.Lock", m)
	for m.held {
		s.Block(m)
	}
	m.held = true
}

func (m *Mutex) Unlock() {
	s := verifhook.Sched
	if s == nil {
		m.real.Unlock()
		return
	}
	if !m.held {
		panic("vsync: unlock of unlocked Mutex")
	}
	m.held = false
	s.Wake(m)
	s.Point("Mutex.Unlock", m)
}

// RWMutex mirrors sync.RWMutex.
type RWMutex struct {
	real    sync.RWMutex
	writer  bool
	readers int
}

func (m *RWMutex) Lock() {
	s := verifhook.Sched
	if s == nil {
		m.real.Lock()
		return
	}
	s.Point("RWMutex.Lock", m)
	for m.writer || m.readers > 0 {
		s.Block(m)
	}
	m.writer = true
}

func (m *RWMutex) Unlock() {
	s := verifhook.Sched
	if s == nil {
		m.real.Unlock()
		return
	}
	if !m.writer {
		panic("vsync: Unlock of unlocked RWMutex")
	}
	m.writer = false
	s.Wake(m)
	s.Point("RWMutex.Unlock", m)
}

func (m *RWMutex) RLock() {
	s := verifhook.Sched
	if s == nil {
		m.real.RLock()
		return
	}
	s.Point("RWMutex.RLock", m)
	for m.writer {
		s.Block(m)
	}
	m.readers++
}

func (m *RWMutex) RUnlock() {
	s := verifhook.Sched
	if s == nil {
		m.real.RUnlock()
		return
	}
	if m.readers <= 0 {
		panic("vsync: RUnlock of unlocked RWMutex")
	}
	m.readers--
	s.Wake(m)
	s.Point("RWMutex.RUnlock", m)
}

// Once mirrors sync.Once.
type Once struct {
	real    sync.Once
	done    bool
	running bool
}

func (o *Once) Do(f func()) {
	s := verifhook.Sched
	if s == nil {
		o.real.Do(f)
		return
	}
	s.Point("Once.Do", o)
	for o.running {
		s.Block(o)
	}
	if o.done {
		return
	}
	o.running = true
	defer func() {
		o.running, o.done = false, true
		s.Wake(o)
	}()
	f()
}

// Map mirrors sync.Map (cooperative scheduling makes the underlying real map safe).
type Map struct {
	real sync.Map
}

func (m *Map) point(kind string) {
	if s := verifhook.Sched; s != nil {
		s.Point("Map."+kind, m)
	}
}

func (m *Map) Load(key any) (any, bool)          { m.point("Load"); return m.real.Load(key) }
func (m *Map) Store(key, value any)              { m.point("Store"); m.real.Store(key, value) }
func (m *Map) Delete(key any)                    { m.point("Delete"); m.real.Delete(key) }
func (m *Map) Range(f func(key, value any) bool) { m.point("Range"); m.real.Range(f) }
func (m *Map) LoadOrStore(key, value any) (any, bool) {
	m.point("LoadOrStore")
	return m.real.LoadOrStore(key, value)
}
func (m *Map) LoadAndDelete(key any) (any, bool) {
	m.point("LoadAndDelete")
	return m.real.LoadAndDelete(key)
}
func (m *Map) Swap(key, value any) (any, bool) { m.point("Swap"); return m.real.Swap(key, value) }
func (m *Map) CompareAndSwap(key, old, new any) bool {
	m.point("CompareAndSwap")
	return m.real.CompareAndSwap(key, old, new)
}
func (m *Map) CompareAndDelete(key, old any) bool {
	m.point("CompareAndDelete")
	return m.real.CompareAndDelete(key, old)
}

// WaitGroup and Pool are passed through (the library does not use them today; kept so that the import rewrite stays valid).
type WaitGroup = sync.WaitGroup
type Pool = sync.Pool
type Locker = sync.Locker
