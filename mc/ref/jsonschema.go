// Package ref holds the reference models: small, boring Go functions written from the OpenAPI 3.0.3 /
// JSON-Schema draft-4 / RFC 6570 texts, not from kin-openapi's code.
package ref

import (
	"math"
	"regexp"
	"sort"
	"unicode/utf8"
)

// Mode selects the reading of readOnly / writeOnly.
type Mode int

const (
	Plain Mode = iota
	AsRequest
	AsResponse
	// AsRequestNoReadOnlyCheck / AsResponseNoWriteOnlyCheck: the presence rule is switched off (ExcludeReadOnlyValidations /
	// ExcludeWriteOnlyValidations) but a required read-only (write-only) property still need not be present.
	AsRequestNoReadOnlyCheck
	AsResponseNoWriteOnlyCheck
)

// Verdict of the reference evaluator.
type Verdict int

const (
	Reject Verdict = iota
	Accept
	Abstain
)

func (v Verdict) String() string { return [...]string{"reject", "accept", "abstain"}[v] }

// Valid evaluates value against the raw JSON schema (decoded with float64 numbers). It computes the
// two defensible readings of null (see DESIGN C01) and abstains exactly where they disagree.
func Valid(schema map[string]any, value any, mode Mode) Verdict {
	s := eval(schema, value, mode, false)
	k := eval(schema, value, mode, true)
	if s != k {
		return Abstain
	}
	if s {
		return Accept
	}
	return Reject
}

// ValidStrict is the single strict reading (used where no null can occur).
func ValidStrict(schema map[string]any, value any, mode Mode) bool {
	return eval(schema, value, mode, false)
}

func num(v any) (float64, bool) {
	switch n := v.(type) {
	case float64:
		return n, true
	case int:
		return float64(n), true
	case int64:
		return float64(n), true
	}
	return 0, false
}

// TypeOf returns the JSON type name of a decoded value ("integer" for integral numbers).
func TypeOf(v any) string {
	switch n := v.(type) {
	case nil:
		return "null"
	case bool:
		return "boolean"
	case string:
		return "string"
	case []any:
		return "array"
	case map[string]any:
		return "object"
	default:
		if f, ok := num(n); ok {
			if f == math.Trunc(f) && !math.IsInf(f, 0) {
				return "integer"
			}
			return "number"
		}
	}
	return "unknown"
}

// Equal is JSON value equality (numbers numerically).
func Equal(a, b any) bool {
	if fa, ok := num(a); ok {
		fb, ok2 := num(b)
		return ok2 && fa == fb
	}
	switch x := a.(type) {
	case nil:
		return b == nil
	case bool:
		y, ok := b.(bool)
		return ok && x == y
	case string:
		y, ok := b.(string)
		return ok && x == y
	case []any:
		y, ok := b.([]any)
		if !ok || len(x) != len(y) {
			return false
		}
		for i := range x {
			if !Equal(x[i], y[i]) {
				return false
			}
		}
		return true
	case map[string]any:
		y, ok := b.(map[string]any)
		if !ok || len(x) != len(y) {
			return false
		}
		for k, v := range x {
			w, ok := y[k]
			if !ok || !Equal(v, w) {
				return false
			}
		}
		return true
	}
	return false
}

func subs(s map[string]any, key string) []map[string]any {
	l, _ := s[key].([]any)
	var out []map[string]any
	for _, e := range l {
		m, _ := e.(map[string]any)
		if m == nil {
			m = map[string]any{}
		}
		out = append(out, m)
	}
	return out
}

var reCache = map[string]*regexp.Regexp{}

func re(p string) *regexp.Regexp {
	if r, ok := reCache[p]; ok {
		return r
	}
	r := regexp.MustCompile(p)
	reCache[p] = r
	return r
}

// eval is two-valued. kin=false: strict reading (nullable only adds null to type, every other keyword
// still applies). kin=true: the repository's documented reading (nullable admits null outright at that
// level; a composition may admit null on behalf of its parent).
func eval(s map[string]any, v any, mode Mode, kin bool) bool {
	nullable, _ := s["nullable"].(bool)
	if v == nil {
		if kin {
			if nullable {
				return true
			}
			hasX := len(subs(s, "allOf"))+len(subs(s, "anyOf"))+len(subs(s, "oneOf")) > 0
			if !hasX {
				return false
			}
			return evalNot(s, v, mode, kin) && evalXOf(s, v, mode, kin)
		}
		if !nullable {
			return false
		}
		// strict: type is satisfied by nullable; all other keywords apply
		if en, ok := s["enum"].([]any); ok && len(en) > 0 {
			found := false
			for _, e := range en {
				if e == nil {
					found = true
				}
			}
			if !found {
				return false
			}
		}
		return evalNot(s, v, mode, kin) && evalXOf(s, v, mode, kin)
	}
	// type
	if t, ok := s["type"].(string); ok {
		vt := TypeOf(v)
		if !(t == vt || (t == "number" && vt == "integer")) {
			return false
		}
	}
	if en, ok := s["enum"].([]any); ok && len(en) > 0 {
		found := false
		for _, e := range en {
			if Equal(e, v) {
				found = true
				break
			}
		}
		if !found {
			return false
		}
	}
	if !evalNot(s, v, mode, kin) || !evalXOf(s, v, mode, kin) {
		return false
	}
	switch x := v.(type) {
	case string:
		n := float64(utf8.RuneCountInString(x))
		if m, ok := num(s["minLength"]); ok && n < m {
			return false
		}
		if m, ok := num(s["maxLength"]); ok && n > m {
			return false
		}
		if p, ok := s["pattern"].(string); ok && !re(p).MatchString(x) {
			return false
		}
	case []any:
		n := float64(len(x))
		if m, ok := num(s["minItems"]); ok && n < m {
			return false
		}
		if m, ok := num(s["maxItems"]); ok && n > m {
			return false
		}
		if u, _ := s["uniqueItems"].(bool); u {
			for i := range x {
				for j := i + 1; j < len(x); j++ {
					if Equal(x[i], x[j]) {
						return false
					}
				}
			}
		}
		if it, ok := s["items"].(map[string]any); ok {
			for _, e := range x {
				if !eval(it, e, mode, kin) {
					return false
				}
			}
		}
	case map[string]any:
		props, _ := s["properties"].(map[string]any)
		n := float64(len(x))
		if m, ok := num(s["minProperties"]); ok && n < m {
			return false
		}
		if m, ok := num(s["maxProperties"]); ok && n > m {
			return false
		}
		if req, ok := s["required"].([]any); ok {
			for _, r := range req {
				name, _ := r.(string)
				if _, present := x[name]; present {
					continue
				}
				if ps, ok := props[name].(map[string]any); ok {
					ro, _ := ps["readOnly"].(bool)
					wo, _ := ps["writeOnly"].(bool)
					if ((mode == AsRequest || mode == AsRequestNoReadOnlyCheck) && ro) || ((mode == AsResponse || mode == AsResponseNoWriteOnlyCheck) && wo) {
						continue
					}
				}
				return false
			}
		}
		keys := make([]string, 0, len(x))
		for k := range x {
			keys = append(keys, k)
		}
		sort.Strings(keys)
		for _, k := range keys {
			if ps, ok := props[k].(map[string]any); ok {
				ro, _ := ps["readOnly"].(bool)
				wo, _ := ps["writeOnly"].(bool)
				if (mode == AsRequest && ro) || (mode == AsResponse && wo) {
					return false
				}
				if !eval(ps, x[k], mode, kin) {
					return false
				}
				continue
			}
			switch ap := s["additionalProperties"].(type) {
			case bool:
				if !ap {
					return false
				}
			case map[string]any:
				if !eval(ap, x[k], mode, kin) {
					return false
				}
			}
		}
	default:
		if f, ok := num(v); ok {
			if m, ok := num(s["minimum"]); ok {
				if ex, _ := s["exclusiveMinimum"].(bool); ex {
					if !(f > m) {
						return false
					}
				} else if !(f >= m) {
					return false
				}
			}
			if m, ok := num(s["maximum"]); ok {
				if ex, _ := s["exclusiveMaximum"].(bool); ex {
					if !(f < m) {
						return false
					}
				} else if !(f <= m) {
					return false
				}
			}
			if m, ok := num(s["multipleOf"]); ok && m > 0 {
				q := f / m
				if q != math.Trunc(q) {
					return false
				}
			}
		}
	}
	return true
}

func evalNot(s map[string]any, v any, mode Mode, kin bool) bool {
	if n, ok := s["not"].(map[string]any); ok {
		return !eval(n, v, mode, kin)
	}
	return true
}

func evalXOf(s map[string]any, v any, mode Mode, kin bool) bool {
	for _, c := range subs(s, "allOf") {
		if !eval(c, v, mode, kin) {
			return false
		}
	}
	if any := subs(s, "anyOf"); len(any) > 0 {
		ok := false
		for _, c := range any {
			if eval(c, v, mode, kin) {
				ok = true
				break
			}
		}
		if !ok {
			return false
		}
	}
	if one := subs(s, "oneOf"); len(one) > 0 {
		n := 0
		for _, c := range one {
			if eval(c, v, mode, kin) {
				n++
			}
		}
		if n != 1 {
			return false
		}
	}
	return true
}
