package ref

import (
	"fmt"
	"math"
	"net/url"
	"sort"
	"strconv"
	"strings"
)

// Cell is one legal (in, style, explode) combination of OAS 3.0.3 §4.7.12.
type Cell struct {
	In, Style string
	Explode   bool
}

func (c Cell) String() string { return fmt.Sprintf("%s/%s/explode=%v", c.In, c.Style, c.Explode) }

// Cells is the complete legal table.
var Cells = []Cell{
	{"path", "simple", false}, {"path", "simple", true}, {"path", "label", false}, {"path", "label", true}, {"path", "matrix", false}, {"path", "matrix", true},
	{"query", "form", false}, {"query", "form", true}, {"query", "spaceDelimited", false}, {"query", "spaceDelimited", true}, {"query", "pipeDelimited", false}, {"query", "pipeDelimited", true},
	{"query", "deepObject", true},
	{"header", "simple", false}, {"header", "simple", true},
	{"cookie", "form", false}, {"cookie", "form", true},
}

// Prim renders a primitive the way the specification's examples do.
func Prim(v any) string {
	switch x := v.(type) {
	case string:
		return x
	case bool:
		if x {
			return "true"
		}
		return "false"
	case float64:
		if x == math.Trunc(x) && math.Abs(x) < 1e15 {
			return strconv.FormatInt(int64(x), 10)
		}
		return strconv.FormatFloat(x, 'f', -1, 64)
	}
	return fmt.Sprint(v)
}

// Serialized is where a serialised parameter goes in a request.
type Serialized struct {
	PathValue string     // for in=path: the text bound to the template variable
	Query     url.Values // for in=query: key -> values, in order
	QueryKeys []string   // order of first appearance
	Header    string     // for in=header
	Cookie    string     // for in=cookie: the cookie value (cookie name = parameter name)
	OK        bool       // false: this (cell, value) is not expressible
}

func (s *Serialized) addQuery(k, v string) {
	if s.Query == nil {
		s.Query = url.Values{}
	}
	if _, ok := s.Query[k]; !ok {
		s.QueryKeys = append(s.QueryKeys, k)
	}
	s.Query[k] = append(s.Query[k], v)
}

// RawQuery renders the query parameters percent-encoded, in insertion order.
func (s *Serialized) RawQuery() string {
	var parts []string
	for _, k := range s.QueryKeys {
		for _, v := range s.Query[k] {
			parts = append(parts, url.QueryEscape(k)+"="+url.QueryEscape(v))
		}
	}
	return strings.Join(parts, "&")
}

func objPairs(o map[string]any, reverse bool) [][2]string {
	keys := make([]string, 0, len(o))
	for k := range o {
		keys = append(keys, k)
	}
	sort.Strings(keys)
	if reverse {
		for i, j := 0, len(keys)-1; i < j; i, j = i+1, j-1 {
			keys[i], keys[j] = keys[j], keys[i]
		}
	}
	var out [][2]string
	for _, k := range keys {
		out = append(out, [2]string{k, Prim(o[k])})
	}
	return out
}

func joinPairs(p [][2]string, kv, sep string) string {
	var parts []string
	for _, e := range p {
		parts = append(parts, e[0]+kv+e[1])
	}
	return strings.Join(parts, sep)
}

func flatPairs(p [][2]string) string {
	var parts []string
	for _, e := range p {
		parts = append(parts, e[0], e[1])
	}
	return strings.Join(parts, ",")
}

// Serialize renders value (primitive, []any of primitives, or flat map of primitives; for deepObject
// also nested maps/arrays) under cell, for a parameter called name. reverse flips object property order.
func Serialize(c Cell, name string, value any, reverse bool) Serialized {
	var s Serialized
	s.OK = true
	arr, isArr := value.([]any)
	obj, isObj := value.(map[string]any)
	items := func() []string {
		out := make([]string, len(arr))
		for i, e := range arr {
			out[i] = Prim(e)
		}
		return out
	}
	switch c.In {
	case "path", "header":
		var text string
		switch c.Style {
		case "simple":
			switch {
			case isArr:
				text = strings.Join(items(), ",")
			case isObj && c.Explode:
				text = joinPairs(objPairs(obj, reverse), "=", ",")
			case isObj:
				text = flatPairs(objPairs(obj, reverse))
			default:
				text = Prim(value)
			}
		case "label":
			switch {
			case isArr && c.Explode:
				text = "." + strings.Join(items(), ".")
			case isArr:
				text = "." + strings.Join(items(), ",")
			case isObj && c.Explode:
				text = "." + joinPairs(objPairs(obj, reverse), "=", ".")
			case isObj:
				text = "." + flatPairs(objPairs(obj, reverse))
			default:
				text = "." + Prim(value)
			}
		case "matrix":
			switch {
			case isArr && c.Explode:
				for _, it := range items() {
					text += ";" + name + "=" + it
				}
			case isArr:
				text = ";" + name + "=" + strings.Join(items(), ",")
			case isObj && c.Explode:
				for _, e := range objPairs(obj, reverse) {
					text += ";" + e[0] + "=" + e[1]
				}
			case isObj:
				text = ";" + name + "=" + flatPairs(objPairs(obj, reverse))
			default:
				text = ";" + name + "=" + Prim(value)
			}
		}
		if c.In == "path" {
			s.PathValue = text
		} else {
			s.Header = text
		}
	case "query":
		switch c.Style {
		case "form":
			switch {
			case isArr && c.Explode:
				for _, it := range items() {
					s.addQuery(name, it)
				}
			case isArr:
				s.addQuery(name, strings.Join(items(), ","))
			case isObj && c.Explode:
				for _, e := range objPairs(obj, reverse) {
					s.addQuery(e[0], e[1])
				}
			case isObj:
				s.addQuery(name, flatPairs(objPairs(obj, reverse)))
			default:
				s.addQuery(name, Prim(value))
			}
		case "spaceDelimited", "pipeDelimited":
			if !isArr {
				s.OK = false
				return s
			}
			delim := " "
			if c.Style == "pipeDelimited" {
				delim = "|"
			}
			if c.Explode {
				for _, it := range items() {
					s.addQuery(name, it)
				}
			} else {
				s.addQuery(name, strings.Join(items(), delim))
			}
		case "deepObject":
			if !isObj {
				s.OK = false
				return s
			}
			var rec func(prefix string, v any)
			rec = func(prefix string, v any) {
				switch x := v.(type) {
				case map[string]any:
					keys := make([]string, 0, len(x))
					for k := range x {
						keys = append(keys, k)
					}
					sort.Strings(keys)
					if reverse {
						for i, j := 0, len(keys)-1; i < j; i, j = i+1, j-1 {
							keys[i], keys[j] = keys[j], keys[i]
						}
					}
					for _, k := range keys {
						rec(prefix+"["+k+"]", x[k])
					}
				case []any:
					for i, e := range x {
						rec(prefix+"["+strconv.Itoa(i)+"]", e)
					}
				default:
					s.addQuery(prefix, Prim(v))
				}
			}
			rec(name, obj)
		}
	case "cookie":
		switch {
		case isArr && c.Explode, isObj && c.Explode:
			s.OK = false // not expressible in one cookie
		case isArr:
			s.Cookie = strings.Join(items(), ",")
		case isObj:
			s.Cookie = flatPairs(objPairs(obj, reverse))
		default:
			s.Cookie = Prim(value)
		}
	}
	return s
}

// Ambiguous tells whether the specification's own rules cannot invert the serialisation of value under
// cell: a string leaf containing a delimiter of the style, an empty string inside a collection, or an
// empty collection.
func Ambiguous(c Cell, value any) bool {
	return ambiguous(c, value, false)
}

// AmbiguousEscaped is the tighter reading for query parameters: the query string percent-encodes reserved characters,
// so only the separator the style itself puts *between the members of a collection* (and, for deepObject, brackets
// in property names) cannot be told apart; a primitive value is never ambiguous.
func AmbiguousEscaped(c Cell, value any) bool {
	if c.In != "query" {
		return ambiguous(c, value, false)
	}
	return ambiguous(c, value, true)
}

func ambiguous(c Cell, value any, escaped bool) bool {
	if escaped {
		sep := ""
		switch {
		case c.Style == "form" && !c.Explode:
			sep = ","
		case c.Style == "spaceDelimited":
			sep = " "
		case c.Style == "pipeDelimited":
			sep = "|"
		}
		var inColl func(v any) bool
		inColl = func(v any) bool {
			switch x := v.(type) {
			case string:
				return x == "" || (sep != "" && strings.Contains(x, sep))
			case []any:
				if len(x) == 0 {
					return true
				}
				for _, e := range x {
					if inColl(e) {
						return true
					}
				}
			case map[string]any:
				if len(x) == 0 {
					return true
				}
				for k, e := range x {
					if inColl(e) || (sep != "" && strings.Contains(k, sep)) || (c.Style == "deepObject" && strings.ContainsAny(k, "[]")) {
						return true
					}
				}
			}
			return false
		}
		switch value.(type) {
		case []any, map[string]any:
			return inColl(value)
		}
		return false
	}
	delims := ","
	switch c.Style {
	case "label":
		delims = ",.="
	case "matrix":
		delims = ",;="
	case "simple":
		delims = ",="
	case "form":
		delims = ",=&"
	case "spaceDelimited":
		delims = " ,&"
	case "pipeDelimited":
		delims = "|,&"
	case "deepObject":
		delims = "[]&="
	}
	if c.In == "cookie" {
		delims += "; \""
	}
	if c.In == "header" {
		delims += " "
	}
	if c.In == "path" {
		delims += "/?#%"
	}
	var leaf func(v any, inColl bool) bool
	leaf = func(v any, inColl bool) bool {
		switch x := v.(type) {
		case string:
			if inColl && x == "" {
				return true
			}
			if strings.ContainsAny(x, delims) {
				return true
			}
			for _, r := range x {
				if r > 127 && (c.In == "header" || c.In == "cookie") {
					return true
				}
			}
		case float64:
			if c.Style == "label" && x != math.Trunc(x) {
				return true // the decimal point is the label delimiter
			}
		case []any:
			if len(x) == 0 {
				return true
			}
			for _, e := range x {
				if leaf(e, true) {
					return true
				}
			}
		case map[string]any:
			if len(x) == 0 {
				return true
			}
			for _, e := range x {
				if leaf(e, true) {
					return true
				}
			}
		}
		return false
	}
	return leaf(value, false)
}
