package ref

import (
	"sort"
	"strings"
)

// API-description normal form shared by Swagger 2.0 and OpenAPI 3.0 documents (raw decoded JSON in, plain maps out):
// paths -> methods -> {operationId, parameters by in:name (required, schema), body (required, schema), form fields,
// responses by code (description, headers, schema), security}, definitions, servers, security schemes.
// Shared parameters/responses/request bodies are dereferenced; schema references are kept by name ("schema:<Name>").
// Fields with no counterpart in the other version (collectionFormat <-> style/explode, media type lists) are left out.

type nfDoc struct {
	v3   bool
	root map[string]any
	// names of shared formData parameters of the Swagger 2 original: the converter stores them as component schemas
	formShared map[string]bool
}

func obj(v any) map[string]any { m, _ := v.(map[string]any); return m }
func arr(v any) []any          { a, _ := v.([]any); return a }
func str(v any) string         { s, _ := v.(string); return s }

func (d nfDoc) deref(n map[string]any) map[string]any {
	for i := 0; i < 8; i++ {
		r, ok := n["$ref"].(string)
		if !ok {
			return n
		}
		if !strings.HasPrefix(r, "#/") {
			return n
		}
		var cur any = d.root
		for _, tok := range strings.Split(r[2:], "/") {
			tok = strings.ReplaceAll(strings.ReplaceAll(tok, "~1", "/"), "~0", "~")
			cur = obj(cur)[tok]
		}
		nx := obj(cur)
		if nx == nil {
			return n
		}
		n = nx
	}
	return n
}

var schemaKeys = []string{"type", "format", "title", "description", "enum", "default", "example", "multipleOf", "maximum", "exclusiveMaximum", "minimum", "exclusiveMinimum", "maxLength", "minLength", "pattern",
	"maxItems", "minItems", "uniqueItems", "maxProperties", "minProperties", "required", "readOnly"}

// NFSchema normalises a schema object of either version.
func (d nfDoc) schema(s map[string]any) any {
	if s == nil {
		return nil
	}
	if r, ok := s["$ref"].(string); ok {
		i := strings.LastIndex(r, "/")
		if d.formShared[r[i+1:]] && strings.HasPrefix(r, "#/components/schemas/") {
			// the converter's carrier for a shared form parameter: its schema plus the requiredness marker
			carrier := map[string]any{}
			for k, v := range d.deref(s) {
				if k != "required" {
					carrier[k] = v
				}
			}
			return d.schema(carrier)
		}
		return "schema:" + r[i+1:]
	}
	out := map[string]any{}
	for _, k := range schemaKeys {
		if v, ok := s[k]; ok {
			switch x := v.(type) {
			case bool:
				if !x {
					continue // false is the default of every boolean keyword
				}
			case []any:
				if len(x) == 0 {
					continue
				}
			}
			out[k] = v
		}
	}
	// file upload: v2 type:file <-> v3 type:string format:binary
	if out["type"] == "file" {
		out["type"], out["format"] = "string", "binary"
	}
	if n, _ := s["x-nullable"].(bool); n {
		out["nullable"] = true
	}
	if n, _ := s["nullable"].(bool); n {
		out["nullable"] = true
	}
	switch disc := s["discriminator"].(type) {
	case string:
		if disc != "" {
			out["discriminator"] = disc
		}
	case map[string]any:
		out["discriminator"] = disc["propertyName"]
	}
	if it := obj(s["items"]); it != nil {
		out["items"] = d.schema(it)
	}
	if ps := obj(s["properties"]); len(ps) > 0 {
		pm := map[string]any{}
		for k, v := range ps {
			pm[k] = d.schema(obj(v))
		}
		out["properties"] = pm
	}
	switch ap := s["additionalProperties"].(type) {
	case bool:
		out["additionalProperties"] = ap
	case map[string]any:
		out["additionalProperties"] = d.schema(ap)
	}
	if all := arr(s["allOf"]); len(all) > 0 {
		var l []any
		for _, e := range all {
			l = append(l, d.schema(obj(e)))
		}
		out["allOf"] = l
	}
	return out
}

// v2 non-body parameter / header fields that make up its schema
func (d nfDoc) schemaFromV2Fields(p map[string]any) any {
	s := map[string]any{}
	for k, v := range p {
		switch k {
		case "name", "in", "required", "description", "collectionFormat", "allowEmptyValue":
			continue
		}
		if strings.HasPrefix(k, "x-") && k != "x-nullable" {
			continue
		}
		s[k] = v
	}
	return d.schema(s)
}

func (d nfDoc) parameters(list []any, into map[string]any, body *map[string]any, form map[string]any) {
	for _, e := range list {
		p := d.deref(obj(e))
		in, name := str(p["in"]), str(p["name"])
		req, _ := p["required"].(bool)
		switch in {
		case "body":
			*body = map[string]any{"required": req, "schema": d.schema(obj(p["schema"]))}
		case "formData":
			form[name] = map[string]any{"required": req, "schema": d.schemaFromV2Fields(p)}
		default:
			entry := map[string]any{"required": req}
			if d.v3 {
				entry["schema"] = d.schema(obj(p["schema"]))
			} else {
				entry["schema"] = d.schemaFromV2Fields(p)
			}
			if desc := str(p["description"]); desc != "" {
				entry["description"] = desc
			}
			into[in+":"+name] = entry
		}
	}
}

func (d nfDoc) v3Body(rb map[string]any, body *map[string]any, form map[string]any) {
	rb = d.deref(rb)
	if rb == nil {
		return
	}
	req, _ := rb["required"].(bool)
	content := obj(rb["content"])
	for _, mt := range sortedMapKeys(content) {
		sch := obj(obj(content[mt])["schema"])
		if mt == "application/x-www-form-urlencoded" || mt == "multipart/form-data" {
			if sch != nil {
				if _, isRef := sch["$ref"]; isRef {
					sch = d.deref(sch)
				}
			}
			reqd := map[string]bool{}
			for _, r := range arr(sch["required"]) {
				reqd[str(r)] = true
			}
			for name, ps := range obj(sch["properties"]) {
				form[name] = map[string]any{"required": reqd[name], "schema": d.schema(obj(ps))}
			}
			return
		}
		*body = map[string]any{"required": req, "schema": d.schema(sch)}
		return
	}
}

func (d nfDoc) responses(rs map[string]any) map[string]any {
	out := map[string]any{}
	for code, rv := range rs {
		if strings.HasPrefix(code, "x-") {
			continue
		}
		r := d.deref(obj(rv))
		e := map[string]any{"description": str(r["description"])}
		hs := map[string]any{}
		for hn, hv := range obj(r["headers"]) {
			h := d.deref(obj(hv))
			if d.v3 {
				hs[hn] = d.schema(obj(h["schema"]))
			} else {
				hs[hn] = d.schemaFromV2Fields(h)
			}
		}
		if len(hs) > 0 {
			e["headers"] = hs
		}
		if d.v3 {
			content := obj(r["content"])
			for _, mt := range sortedMapKeys(content) {
				if s := obj(obj(content[mt])["schema"]); s != nil {
					e["schema"] = d.schema(s)
				}
				break
			}
		} else if s := obj(r["schema"]); s != nil {
			e["schema"] = d.schema(s)
		}
		out[code] = e
	}
	return out
}

func sortedMapKeys(m map[string]any) []string {
	ks := make([]string, 0, len(m))
	for k := range m {
		ks = append(ks, k)
	}
	sort.Strings(ks)
	return ks
}

var methods = []string{"get", "put", "post", "delete", "options", "head", "patch"}

// NormalForm computes the API-description normal form of a raw document of either version.
func NormalForm(root map[string]any) map[string]any { return NormalFormWith(root, nil) }

// SharedFormParameters lists the shared formData parameters of a Swagger 2 document.
func SharedFormParameters(root map[string]any) map[string]bool {
	out := map[string]bool{}
	for name, p := range obj(root["parameters"]) {
		if str(obj(p)["in"]) == "formData" {
			out[name] = true
		}
	}
	return out
}

// NormalFormWith is NormalForm where component schemas named in formShared stand for shared form parameters.
func NormalFormWith(root map[string]any, formShared map[string]bool) map[string]any {
	d := nfDoc{v3: root["openapi"] != nil, root: root, formShared: formShared}
	out := map[string]any{}
	paths := map[string]any{}
	for p, pv := range obj(root["paths"]) {
		if strings.HasPrefix(p, "x-") {
			continue
		}
		pi := d.deref(obj(pv))
		ops := map[string]any{}
		for _, meth := range methods {
			op := obj(pi[meth])
			if op == nil {
				continue
			}
			params, form := map[string]any{}, map[string]any{}
			var body map[string]any
			d.parameters(arr(pi["parameters"]), params, &body, form)
			d.parameters(arr(op["parameters"]), params, &body, form)
			if d.v3 {
				d.v3Body(obj(op["requestBody"]), &body, form)
			}
			o := map[string]any{"parameters": params, "responses": d.responses(obj(op["responses"]))}
			if id := str(op["operationId"]); id != "" {
				o["operationId"] = id
			}
			if body != nil {
				o["body"] = body
			}
			if len(form) > 0 {
				o["form"] = form
			}
			if sec, ok := op["security"]; ok {
				o["security"] = sec
			}
			if dep, _ := op["deprecated"].(bool); dep {
				o["deprecated"] = true
			}
			ops[meth] = o
		}
		paths[p] = ops
	}
	out["paths"] = paths
	defs := map[string]any{}
	var src map[string]any
	if d.v3 {
		src = obj(obj(root["components"])["schemas"])
	} else {
		src = obj(root["definitions"])
	}
	for name, s := range src {
		if d.v3 && d.formShared[name] {
			continue
		}
		defs[name] = d.schema(obj(s))
	}
	out["definitions"] = defs
	// servers
	var servers []string
	if d.v3 {
		for _, s := range arr(root["servers"]) {
			servers = append(servers, strings.TrimSuffix(str(obj(s)["url"]), "/"))
		}
	} else {
		host, base := str(root["host"]), strings.TrimSuffix(str(root["basePath"]), "/")
		schemes := arr(root["schemes"])
		if host == "" {
			if base != "" {
				servers = append(servers, base)
			}
		} else if len(schemes) == 0 {
			servers = append(servers, "https://"+host+base)
		} else {
			for _, sc := range schemes {
				servers = append(servers, str(sc)+"://"+host+base)
			}
		}
	}
	sort.Strings(servers)
	var sl []any
	for _, s := range servers {
		sl = append(sl, s)
	}
	out["servers"] = sl
	// security schemes
	schemes := map[string]any{}
	if d.v3 {
		for name, sv := range obj(obj(root["components"])["securitySchemes"]) {
			s := d.deref(obj(sv))
			e := map[string]any{}
			switch str(s["type"]) {
			case "http":
				e["kind"] = "basic" // the only http scheme Swagger 2.0 has
				if sc := str(s["scheme"]); sc != "basic" {
					e["kind"] = "http-" + sc
				}
			case "apiKey":
				e["kind"], e["in"], e["name"] = "apiKey", s["in"], s["name"]
			case "oauth2":
				e["kind"] = "oauth2"
				for flow, fv := range obj(s["flows"]) {
					f := obj(fv)
					fe := map[string]any{"scopes": f["scopes"]}
					if u := str(f["authorizationUrl"]); u != "" {
						fe["authorizationUrl"] = u
					}
					if u := str(f["tokenUrl"]); u != "" {
						fe["tokenUrl"] = u
					}
					e["flow"] = map[string]any{"authorizationCode": "accessCode", "clientCredentials": "application"}[flow]
					if e["flow"] == nil {
						e["flow"] = flow
					}
					for k, v := range fe {
						e[k] = v
					}
				}
			default:
				e["kind"] = str(s["type"])
			}
			if desc := str(s["description"]); desc != "" {
				e["description"] = desc
			}
			schemes[name] = e
		}
	} else {
		for name, sv := range obj(root["securityDefinitions"]) {
			s := obj(sv)
			e := map[string]any{}
			switch str(s["type"]) {
			case "basic":
				e["kind"] = "basic"
			case "apiKey":
				e["kind"], e["in"], e["name"] = "apiKey", s["in"], s["name"]
			case "oauth2":
				e["kind"], e["flow"] = "oauth2", s["flow"]
				if sc, ok := s["scopes"]; ok {
					e["scopes"] = sc
				} else {
					e["scopes"] = map[string]any{}
				}
				if u := str(s["authorizationUrl"]); u != "" {
					e["authorizationUrl"] = u
				}
				if u := str(s["tokenUrl"]); u != "" {
					e["tokenUrl"] = u
				}
			}
			if desc := str(s["description"]); desc != "" {
				e["description"] = desc
			}
			schemes[name] = e
		}
	}
	out["securitySchemes"] = schemes
	if sec, ok := root["security"]; ok {
		out["security"] = sec
	}
	return out
}
