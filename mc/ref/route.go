package ref

import "strings"

// TemplateVars returns the variable names of a path template, in order.
func TemplateVars(tpl string) []string {
	var out []string
	for _, seg := range strings.Split(strings.TrimPrefix(tpl, "/"), "/") {
		if _, name, _, ok := splitSegment(seg); ok {
			out = append(out, name)
		}
	}
	return out
}

// MatchTemplate matches a request path against a template segment by segment: literal segments must
// be equal, a variable segment binds any non-empty text. ok=false: no match.
func MatchTemplate(tpl, path string) (map[string]string, bool) {
	ts := strings.Split(strings.TrimPrefix(tpl, "/"), "/")
	ps := strings.Split(strings.TrimPrefix(path, "/"), "/")
	if !strings.HasPrefix(path, "/") || len(ts) != len(ps) {
		return nil, false
	}
	vars := map[string]string{}
	for i, t := range ts {
		if pre, name, suf, ok := splitSegment(t); ok {
			// a variable (possibly with a literal prefix and suffix inside the segment) binds non-empty text
			if !strings.HasPrefix(ps[i], pre) || !strings.HasSuffix(ps[i], suf) || len(ps[i]) <= len(pre)+len(suf) {
				return nil, false
			}
			vars[name] = ps[i][len(pre) : len(ps[i])-len(suf)]
			continue
		}
		if t != ps[i] {
			return nil, false
		}
	}
	return vars, true
}

// FillTemplate substitutes variables into a template.
func FillTemplate(tpl string, vars map[string]string) string {
	out := tpl
	for k, v := range vars {
		out = strings.ReplaceAll(out, "{"+k+"}", v)
	}
	return out
}

// splitSegment splits a template segment with one variable into literal prefix, variable name and literal suffix.
func splitSegment(seg string) (pre, name, suf string, ok bool) {
	i := strings.IndexByte(seg, '{')
	j := strings.IndexByte(seg, '}')
	if i < 0 || j < i {
		return "", "", "", false
	}
	return seg[:i], seg[i+1 : j], seg[j+1:], true
}
