package ref

import "strings"

// TemplateVars returns the variable names of a path template, in order.
func TemplateVars(tpl string) []string {
	var out []string
	for _, seg := range strings.Split(strings.TrimPrefix(tpl, "/"), "/") {
		if strings.HasPrefix(seg, "{") && strings.HasSuffix(seg, "}") {
			out = append(out, seg[1:len(seg)-1])
		}
	}
	return out
}

// MatchTemplate matches a request path against a template segment by segment: literal segments must
// be equal, a variable segment binds any non-empty text. ok=false: no match.
func MatchTemplate(tpl, path string) (map[string]string, bool) {
	ts := strings.Split(strings.TrimPrefix(tpl, "/"), "/")
	ps := strings.Split(strings.TrimPrefix(path, "/"), "/")
	if !strings.HasPrefix(path, "/") || len(ts) != len(ps) {
		return nil, false
	}
	vars := map[string]string{}
	for i, t := range ts {
		if strings.HasPrefix(t, "{") && strings.HasSuffix(t, "}") {
			if ps[i] == "" {
				return nil, false
			}
			vars[t[1:len(t)-1]] = ps[i]
			continue
		}
		if t != ps[i] {
			return nil, false
		}
	}
	return vars, true
}

// FillTemplate substitutes variables into a template.
func FillTemplate(tpl string, vars map[string]string) string {
	out := tpl
	for k, v := range vars {
		out = strings.ReplaceAll(out, "{"+k+"}", v)
	}
	return out
}
