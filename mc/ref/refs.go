package ref

import (
	"errors"
	"fmt"
	"net/url"
	"path"
	"strconv"
	"strings"
)

// Files is an in-memory forest: location (cleaned absolute path or absolute URL) -> parsed JSON.
type Files map[string]any

// ResolveURL resolves a reference string against the location of the document that contains it
// (RFC 3986 for paths: relative references are joined to the directory of the base, absolute paths
// and absolute URLs stand for themselves). It returns the target location ("" = same document) and
// the fragment (without '#').
func ResolveURL(base, ref string) (loc, frag string, err error) {
	u, err := url.Parse(ref)
	if err != nil {
		return "", "", err
	}
	frag = u.Fragment
	if u.Scheme == "" && u.Host == "" && u.Path == "" {
		return base, frag, nil
	}
	if u.Scheme != "" || u.Host != "" {
		u.Fragment = ""
		return u.String(), frag, nil
	}
	if strings.HasPrefix(u.Path, "/") {
		// absolute-path reference: keeps the scheme and authority of the base (RFC 3986 5.2.2)
		if bu, err := url.Parse(base); err == nil && (bu.Scheme != "" || bu.Host != "") {
			bu.Path = path.Clean(u.Path)
			bu.Fragment = ""
			return bu.String(), frag, nil
		}
		return path.Clean(u.Path), frag, nil
	}
	if base == "" {
		return path.Clean(u.Path), frag, nil
	}
	if bu, err := url.Parse(base); err == nil && (bu.Scheme != "" || bu.Host != "") {
		bu.Path = path.Join(path.Dir(bu.Path), u.Path)
		bu.Fragment = ""
		return bu.String(), frag, nil
	}
	return path.Join(path.Dir(base), u.Path), frag, nil
}

// Pointer evaluates a JSON pointer (the fragment, starting with '/' or empty) on raw JSON.
func Pointer(doc any, frag string) (any, bool) {
	if frag == "" || frag == "/" {
		return doc, frag == ""
	}
	if !strings.HasPrefix(frag, "/") {
		return nil, false
	}
	cur := doc
	for _, tok := range strings.Split(frag[1:], "/") {
		tok = strings.ReplaceAll(strings.ReplaceAll(tok, "~1", "/"), "~0", "~")
		switch c := cur.(type) {
		case map[string]any:
			n, ok := c[tok]
			if !ok {
				return nil, false
			}
			cur = n
		case []any:
			i, err := strconv.Atoi(tok)
			if err != nil || i < 0 || i >= len(c) {
				return nil, false
			}
			cur = c[i]
		default:
			return nil, false
		}
	}
	return cur, true
}

var (
	ErrDangling = errors.New("reference target does not exist")
	ErrLoop     = errors.New("reference chain never reaches an object")
)

// Target is a resolved reference.
type Target struct {
	Loc  string // location of the file holding the object
	Frag string // JSON pointer of the object inside that file ("" = whole file)
	Obj  any    // the object (not itself a reference)
	Hops int    // references followed
}

// RefOf returns the $ref string of a raw node, if it is a reference object.
func RefOf(node any) (string, bool) {
	m, ok := node.(map[string]any)
	if !ok {
		return "", false
	}
	r, ok := m["$ref"].(string)
	return r, ok
}

// Resolve follows ref (found in the file at loc) through chains of references to the first object
// that is not itself a reference.
func Resolve(files Files, loc, ref string) (Target, error) {
	seen := map[string]bool{}
	hops := 0
	for {
		tl, frag, err := ResolveURL(loc, ref)
		if err != nil {
			return Target{}, err
		}
		key := tl + "#" + frag
		if seen[key] {
			return Target{}, ErrLoop
		}
		seen[key] = true
		doc, ok := files[tl]
		if !ok {
			return Target{}, fmt.Errorf("%w: file %q", ErrDangling, tl)
		}
		obj, ok := Pointer(doc, frag)
		if !ok {
			return Target{}, fmt.Errorf("%w: %q in %q", ErrDangling, frag, tl)
		}
		hops++
		if r, isRef := RefOf(obj); isRef {
			loc, ref = tl, r
			continue
		}
		return Target{Loc: tl, Frag: frag, Obj: obj, Hops: hops}, nil
	}
}

// Expand returns node with every reference object replaced by {"$ref": r, "$value": expansion of
// the designated object}, following at most depth nested references along any path; deeper
// references become {"$ref": r, "$cut": true}. An unresolvable reference becomes
// {"$ref": r, "$error": "..."}.
func Expand(files Files, loc string, node any, depth int) any {
	switch x := node.(type) {
	case map[string]any:
		if r, ok := RefOf(x); ok {
			if depth <= 0 {
				return map[string]any{"$ref": r, "$cut": true}
			}
			t, err := Resolve(files, loc, r)
			if err != nil {
				return map[string]any{"$ref": r, "$error": "unresolved"}
			}
			return map[string]any{"$ref": r, "$value": Expand(files, t.Loc, t.Obj, depth-1)}
		}
		out := make(map[string]any, len(x))
		for k, v := range x {
			if strings.HasPrefix(k, "x-") {
				out[k] = v // specification extensions are opaque data: references inside them are not references of the document
				continue
			}
			out[k] = Expand(files, loc, v, depth)
		}
		return out
	case []any:
		out := make([]any, len(x))
		for i, v := range x {
			out[i] = Expand(files, loc, v, depth)
		}
		return out
	}
	return node
}
