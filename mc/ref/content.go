package ref

import "strings"

// SelectContent returns the declared media-type key chosen for a Content-Type header value by the
// documented precedence: exact string, the value without parameters, type/*, */*. An empty header
// value selects */* only. ok=false: the content type is undeclared.
func SelectContent(declared []string, header string) (string, bool) {
	has := func(k string) bool {
		for _, d := range declared {
			if d == k {
				return true
			}
		}
		return false
	}
	if header == "" {
		return "*/*", has("*/*")
	}
	if has(header) {
		return header, true
	}
	base := header
	if i := strings.IndexByte(base, ';'); i >= 0 {
		base = base[:i]
	}
	if has(base) {
		return base, true
	}
	i := strings.IndexByte(base, '/')
	if i < 0 {
		return "", false // not a media type: never matched by a wildcard
	}
	if k := base[:i] + "/*"; has(k) {
		return k, true
	}
	return "*/*", has("*/*")
}

// SelectStatus returns the responses key chosen for a status code: exact code, class pattern (1XX-5XX), default.
func SelectStatus(keys []string, status int) (string, bool) {
	has := func(k string) bool {
		for _, d := range keys {
			if d == k {
				return true
			}
		}
		return false
	}
	code := itoa(status)
	if has(code) {
		return code, true
	}
	if status >= 100 && status <= 599 {
		if k := string(code[0]) + "XX"; has(k) {
			return k, true
		}
	}
	if has("default") {
		return "default", true
	}
	return "", false
}

func itoa(n int) string {
	if n == 0 {
		return "0"
	}
	neg := n < 0
	if neg {
		n = -n
	}
	var b []byte
	for n > 0 {
		b = append([]byte{byte('0' + n%10)}, b...)
		n /= 10
	}
	if neg {
		b = append([]byte{'-'}, b...)
	}
	return string(b)
}
