// Package core drives a check: coordinator/worker processes, violation records, known findings,
// replay files and the evidence file.
package core

import (
	"encoding/binary"
	"encoding/json"
	"fmt"
	"hash/fnv"
	"io"
	"log"
	"os"
	"os/exec"
	"path/filepath"
	"runtime"
	"runtime/debug"
	"runtime/pprof"
	"sort"
	"strconv"
	"strings"
	"sync/atomic"
	"time"

	"github.com/getkin/kin-openapi/verifhook"

	"verifmc/explore"
)

// VerifDir is the root of the verification tree (VERIF_DIR, default /verif).
var VerifDir = func() string {
	if d := os.Getenv("VERIF_DIR"); d != "" {
		return d
	}
	return "/verif"
}()

// Check is one registered property check.
type Check struct {
	ID          string
	Rule        string   // how cases are enumerated and what makes one non-trivial
	Assumptions []string // trusted base
	Bounds      func(tier string) map[string]any
	DevBound    func(tier string) int
	// Body generates one case from x, runs the real code and judges it through r.
	Body func(r *Run, x *explore.X)
	// Init runs once per process before exploring (registries, fixtures).
	Init func(r *Run)
	// MinOutcomes is the number of distinct outcome classes below which the run is vacuous.
	MinOutcomes int
	// Serial forces a single worker (checks that own process-wide state or spawn their own threads).
	Serial bool
	// CapSeconds overrides the tier deadline.
	CapSeconds func(tier string) int
	// ShrinkVectors minimises the choice vector of every violation before recording it.
	ShrinkVectors bool
	// Post runs in the coordinator after merging (extra evidence keys, cross-worker oracles).
	Post func(tier string, ev map[string]any)
}

var registry = map[string]*Check{}

func Register(c *Check) { registry[c.ID] = c }

// Violation is one failing execution.
type Violation struct {
	Property  string         `json:"property"`
	Clause    string         `json:"clause"`
	Signature string         `json:"signature"` // stable identity used by known_findings.jsonl
	Detail    map[string]any `json:"detail"`
	Vector    []int          `json:"vector"`
	Count     int64          `json:"count"` // executions that collapsed onto this signature
	Site      string         `json:"site,omitempty"`
	Stack     string         `json:"stack,omitempty"`
}

// Run is the per-process state a body reports into.
type Run struct {
	Check    *Check
	Tier     string
	Seed     int64
	Replay   bool
	deadline time.Time

	evaluations int64
	validated   int64
	abstained   int64
	all         map[uint64]struct{}
	nontriv     map[uint64]struct{}
	distinctCap bool
	outcomes    map[string]int64
	counters    map[string]int64
	maxima      map[string]int64
	viol        map[string]*Violation
	samples     []sample
	cur         *explore.X
	curFile     *os.File
	progress    atomic.Int64
	poison      [][]int
	seenFlags   map[string]bool
	probing     bool
	noShrink    bool // re-execution of an already minimised vector
	// Shared carries per-process fixtures built by Init (shared with scratch runs).
	Shared any
}

type sample struct {
	Rank uint64 `json:"rank"`
	Case any    `json:"case"`
}

const distinctLimit = 3_000_000

func hash64(s string) uint64 {
	h := fnv.New64a()
	h.Write([]byte(s))
	return h.Sum64()
}

// Case records one evaluated case under its canonical key.
var traceCases = os.Getenv("VERIF_TRACE") != ""

func (r *Run) Case(key string, nontrivial bool) {
	r.evaluations++
	if traceCases {
		fmt.Fprintln(os.Stderr, "CASE:", key)
	}
	if r.distinctCap {
		return
	}
	h := hash64(key)
	r.all[h] = struct{}{}
	if nontrivial {
		r.nontriv[h] = struct{}{}
	}
	if len(r.all) >= distinctLimit {
		r.distinctCap = true
	}
}

// Validated counts an execution whose observation was compared with the reference model.
func (r *Run) Validated(n int64) { r.validated += n }

// Abstain counts an execution the oracle did not bind on.
func (r *Run) Abstain(n int64) { r.abstained += n }

// Outcome adds to the histogram of observed verdict classes.
func (r *Run) Outcome(class string) { r.outcomes[class]++ }

// Count adds to a named counter reported in evidence.
func (r *Run) Count(name string, n int64) { r.counters[name] += n }

// Max tracks a named maximum reported in evidence.
func (r *Run) Max(name string, n int64) {
	if n > r.maxima[name] {
		r.maxima[name] = n
	}
}

// Once returns true the first time it is called with key (per process).
func (r *Run) Once(key string) bool {
	if r.seenFlags[key] {
		return false
	}
	r.seenFlags[key] = true
	return true
}

// Sample offers a rendered case for the evidence samples; a seed-dependent few are kept.
func (r *Run) Sample(x *explore.X, c any) {
	rank := hash64(fmt.Sprint(r.Seed, x.Choices()))
	if len(r.samples) >= 4 && rank >= r.samples[len(r.samples)-1].Rank {
		return
	}
	r.samples = append(r.samples, sample{rank, c})
	sort.Slice(r.samples, func(i, j int) bool { return r.samples[i].Rank < r.samples[j].Rank })
	if len(r.samples) > 4 {
		r.samples = r.samples[:4]
	}
}

// WantSample tells cheaply whether Sample would keep a case for this execution.
func (r *Run) WantSample(x *explore.X) bool {
	if len(r.samples) < 4 {
		return true
	}
	return hash64(fmt.Sprint(r.Seed, x.Choices())) < r.samples[len(r.samples)-1].Rank
}

// Fail records a violation of clause with a stable signature. For checks with ShrinkVectors the
// choice vector is first minimised (every choice lowered towards the default answer while the same
// clause still fails) and the violation is recorded under the signature of the minimal case.
func (r *Run) Fail(x *explore.X, clause, signature string, detail map[string]any) {
	v := &Violation{Property: r.Check.ID, Clause: clause, Signature: signature, Detail: detail, Vector: x.Choices()}
	if r.Check.ShrinkVectors && !r.probing && !r.Replay && !r.noShrink {
		if m := r.shrinkVector(v); m != nil {
			m.Detail = cloneDetail(m.Detail)
			m.Detail["found_at_vector"] = fmt.Sprint(v.Vector)
			v = m
		}
	}
	r.failV(v)
}

// probe runs the body on exactly vec in a scratch Run and returns the violation of clause, if any.
func (r *Run) probe(vec []int, clause string) (out *Violation) {
	defer func() {
		if p := recover(); p != nil {
			if _, ok := p.(explore.Diverged); ok {
				out = nil
				return
			}
			panic(p)
		}
	}()
	sub := newRun(r.Check, r.Tier, r.Seed)
	sub.probing = true
	sub.Shared = r.Shared
	explore.Replay(devBound(r.Check, r.Tier), vec, func(x *explore.X) { r.Check.Body(sub, x) })
	for _, v := range sub.viol {
		if v.Clause == clause {
			return v
		}
	}
	return nil
}

func (r *Run) shrinkVector(v *Violation) *Violation {
	vec := append([]int{}, v.Vector...)
	var best *Violation
	budget := 300
	for changed := true; changed && budget > 0; {
		changed = false
		for i := len(vec) - 1; i >= 0 && budget > 0; i-- {
			if i >= len(vec) || vec[i] == 0 {
				continue
			}
			// 0 first, then the values chosen elsewhere (lets one member of a pair take the other's place), then the generic ladder
			alts := []int{0}
			for _, other := range vec {
				if other > 0 && other < vec[i] {
					alts = append(alts, other)
				}
			}
			for _, a := range lowerAlternatives(vec[i]) {
				dup := false
				for _, b := range alts {
					if a == b {
						dup = true
					}
				}
				if !dup {
					alts = append(alts, a)
				}
			}
			for _, alt := range alts {
				cand := append([]int{}, vec...)
				cand[i] = alt
				for len(cand) > 0 && cand[len(cand)-1] == 0 {
					cand = cand[:len(cand)-1]
				}
				budget--
				if m := r.probe(cand, v.Clause); m != nil {
					vec, best, changed = m.Vector, m, true
					for len(vec) > 0 && vec[len(vec)-1] == 0 {
						vec = vec[:len(vec)-1]
					}
					break
				}
			}
		}
	}
	return best
}

func lowerAlternatives(c int) []int {
	seen := map[int]bool{}
	var out []int
	for _, a := range []int{0, 1, 2, 3, c / 8, c / 4, c / 2, c - 8, c - 4, c - 2, c - 1} {
		if a >= 0 && a < c && !seen[a] {
			seen[a] = true
			out = append(out, a)
		}
	}
	return out
}

func (r *Run) failV(v *Violation) {
	key := v.Clause + "|" + v.Signature
	if old, ok := r.viol[key]; ok {
		old.Count++
		return
	}
	v.Count = 1
	r.viol[key] = v
	if r.Replay {
		b, _ := json.MarshalIndent(v, "", " ")
		fmt.Printf("replayed violation:\n%s\n", b)
	}
}

// Guard runs f and converts a panic escaping from library frames into a violation of clause
// "no-panic", and an exhausted step budget into a violation of clause "terminates". It returns true when f
// returned normally. f runs in a goroutine of its own (the caller waits), so that an exhausted budget can end it
// with runtime.Goexit; under the controlled scheduler of C15 f runs in the calling thread.
func (r *Run) Guard(x *explore.X, what string, detail map[string]any, f func()) (ok bool) {
	budgetViolation := func(stack string) {
		site := "step-budget:" + what + "@" + LoopSite(stack)
		d2 := cloneDetail(detail)
		d2["what"] = what
		r.failV(&Violation{Property: r.Check.ID, Clause: "terminates", Signature: site, Detail: d2, Vector: x.Choices(), Site: site, Stack: trimStack(stack)})
	}
	panicViolation := func(p any, stack string) {
		site := PanicSite(stack)
		msg := fmt.Sprint(p)
		d2 := cloneDetail(detail)
		d2["what"] = what
		d2["panic"] = msg
		r.failV(&Violation{Property: r.Check.ID, Clause: "no-panic", Signature: "panic@" + site + ":" + panicClass(msg), Detail: d2, Vector: x.Choices(), Site: site, Stack: trimStack(stack)})
	}
	if verifhook.Sched != nil {
		defer func() {
			if p := recover(); p != nil {
				if d, isDiv := p.(explore.Diverged); isDiv {
					panic(d)
				}
				if _, isStep := p.(verifhook.StepBudgetExceeded); isStep {
					budgetViolation(shortStack())
					ok = false
					return
				}
				panicViolation(p, shortStack())
				ok = false
			}
		}()
		f()
		return true
	}
	var panicked, finished bool
	var pv any
	var stack string
	done := make(chan struct{})
	verifhook.ExitOnBudget, verifhook.Exceeded = true, false
	go func() {
		defer close(done)
		defer func() {
			if p := recover(); p != nil {
				panicked, pv, stack = true, p, shortStack()
			}
		}()
		f()
		finished = true
	}()
	<-done
	verifhook.ExitOnBudget = false
	switch {
	case verifhook.Exceeded:
		verifhook.Exceeded = false
		budgetViolation(framesText(verifhook.ExceededPCs))
		return false
	case panicked:
		if d, isDiv := pv.(explore.Diverged); isDiv {
			panic(d)
		}
		if _, isStep := pv.(verifhook.StepBudgetExceeded); isStep {
			budgetViolation(stack)
			return false
		}
		panicViolation(pv, stack)
		return false
	case !finished:
		panicViolation("the execution ended its goroutine (runtime.Goexit)", "")
		return false
	}
	return true
}

// StepBudget is the default number of instrumented steps one execution may take.
const StepBudget = 1_000_000

// Exec resets the instrumentation seams (step counter, map order policy) for one execution.
func (r *Run) Exec(order int) {
	if verifhook.Steps > r.maxima["max_steps_observed"] {
		r.maxima["max_steps_observed"] = verifhook.Steps
	}
	verifhook.Reset(StepBudget, order)
}

// Steps returns the instrumented steps taken since the last Exec.
func (r *Run) Steps() int64 { return verifhook.Steps }

func cloneDetail(d map[string]any) map[string]any {
	out := map[string]any{}
	for k, v := range d {
		out[k] = v
	}
	return out
}

func panicClass(msg string) string {
	switch {
	case strings.Contains(msg, "nil pointer"):
		return "nil-deref"
	case strings.Contains(msg, "index out of range"):
		return "index"
	case strings.Contains(msg, "slice bounds"):
		return "slice-bounds"
	case strings.Contains(msg, "interface conversion"):
		return "type-assertion"
	case strings.Contains(msg, "nil map"):
		return "nil-map"
	}
	if len(msg) > 40 {
		msg = msg[:40]
	}
	return msg
}

// PanicSite returns the top-most kin-openapi function name of a stack (never a line number).
func PanicSite(stack string) string {
	for _, ln := range strings.Split(stack, "\n") {
		if strings.HasPrefix(ln, "github.com/getkin/kin-openapi/") {
			fn := strings.TrimPrefix(ln, "github.com/getkin/kin-openapi/")
			if i := strings.LastIndex(fn, "("); i > 0 {
				fn = fn[:i]
			}
			if strings.HasPrefix(fn, "verifhook") {
				continue
			}
			return fn
		}
	}
	return "outside-library"
}

// shortStack renders the innermost 400 frames of the current goroutine in the layout of debug.Stack. (debug.Stack
// itself walks and formats the whole stack, which takes minutes when a runaway recursion is a million frames deep.)
func shortStack() string {
	pcs := make([]uintptr, 400)
	n := runtime.Callers(2, pcs)
	return framesText(pcs[:n])
}

func framesText(pcs []uintptr) string {
	frames := runtime.CallersFrames(pcs)
	var b strings.Builder
	b.WriteString("goroutine (innermost 400 frames):\n")
	for {
		f, more := frames.Next()
		fmt.Fprintf(&b, "%s(...)\n\t%s:%d\n", f.Function, f.File, f.Line)
		if !more {
			break
		}
	}
	return b.String()
}

// LoopSite names the library function an unbounded recursion goes through: the library function that occurs most often
// on the stack, at least three times, alphabetically first among equals (the innermost library function if there is none).
func LoopSite(stack string) string {
	count := map[string]int{}
	for _, ln := range strings.Split(stack, "\n") {
		if strings.HasPrefix(ln, "github.com/getkin/kin-openapi/") && !strings.HasPrefix(ln, "github.com/getkin/kin-openapi/verifhook") {
			fn := strings.TrimPrefix(ln, "github.com/getkin/kin-openapi/")
			if i := strings.LastIndex(fn, "("); i > 0 {
				fn = fn[:i]
			}
			count[fn]++
		}
	}
	best := ""
	for fn, n := range count {
		if n >= 3 && (best == "" || n > count[best] || (n == count[best] && fn < best)) {
			best = fn
		}
	}
	if best == "" {
		return PanicSite(stack)
	}
	return best
}

func trimStack(s string) string {
	lines := strings.Split(s, "\n")
	if len(lines) > 60 {
		lines = lines[:60]
	}
	return strings.Join(lines, "\n")
}

// Tick tells the hang watchdog that a long execution is making progress.
func (r *Run) Tick() { r.progress.Add(1) }

// Begin marks the start of an owned execution (crash attribution + hang watchdog).
func (r *Run) Begin(x *explore.X) {
	r.cur = x
	r.progress.Add(1)
	if r.curFile != nil {
		b, _ := json.Marshal(x.Choices())
		b = append(b, '\n')
		buf := make([]byte, 8+len(b))
		binary.LittleEndian.PutUint64(buf, uint64(len(b)))
		copy(buf[8:], b)
		r.curFile.WriteAt(buf, 0)
	}
}

// Poisoned tells whether the current choices are a vector that killed an earlier worker.
func (r *Run) Poisoned(x *explore.X) bool {
	if len(r.poison) == 0 {
		return false
	}
	c := x.Choices()
	for _, p := range r.poison {
		if equalInts(p, c) {
			return true
		}
	}
	return false
}

func equalInts(a, b []int) bool {
	if len(a) != len(b) {
		return false
	}
	for i := range a {
		if a[i] != b[i] {
			return false
		}
	}
	return true
}

// workerResult is what a worker hands to the coordinator.
type workerResult struct {
	Stats       explore.Stats
	Complete    bool
	Evaluations int64
	Validated   int64
	Abstained   int64
	DistinctCap bool
	Outcomes    map[string]int64
	Counters    map[string]int64
	Maxima      map[string]int64
	Violations  []*Violation
	Samples     []sample
	WallS       float64
}

func newRun(c *Check, tier string, seed int64) *Run {
	return &Run{Check: c, Tier: tier, Seed: seed,
		all: map[uint64]struct{}{}, nontriv: map[uint64]struct{}{},
		outcomes: map[string]int64{}, counters: map[string]int64{}, maxima: map[string]int64{},
		viol: map[string]*Violation{}, seenFlags: map[string]bool{}}
}

func capSeconds(c *Check, tier string) int {
	if s := os.Getenv("VERIF_CAP_S"); s != "" {
		if n, err := strconv.Atoi(s); err == nil {
			return n
		}
	}
	if c.CapSeconds != nil {
		return c.CapSeconds(tier)
	}
	if tier == "thorough" {
		return 1200
	}
	return 100
}

func devBound(c *Check, tier string) int {
	if c.DevBound != nil {
		return c.DevBound(tier)
	}
	return 0
}

func runDir() string {
	d := filepath.Join(VerifDir, ".cache", "run")
	os.MkdirAll(d, 0o755)
	return d
}

// Worker explores one shard and writes its result file.
func Worker(c *Check, tier string, seed int64, shard, nshards int, poison [][]int, outPath string) {
	if pf := os.Getenv("VERIF_CPUPROFILE"); pf != "" {
		if f, err := os.Create(fmt.Sprintf("%s.%d", pf, shard)); err == nil {
			pprof.StartCPUProfile(f)
			defer pprof.StopCPUProfile()
		}
	}
	if c.Serial {
		// a serial check may run its own goroutines
	} else {
		runtime.GOMAXPROCS(2)
	}
	r := newRun(c, tier, seed)
	r.poison = poison
	r.deadline = time.Now().Add(time.Duration(capSeconds(c, tier)) * time.Second)
	f, err := os.OpenFile(outPath+".cur", os.O_CREATE|os.O_RDWR|os.O_TRUNC, 0o644)
	if err == nil {
		r.curFile = f
	}
	// hang watchdog: an execution that makes no progress for HangS seconds is reported and the worker exits
	hangS := 120
	if s := os.Getenv("VERIF_HANG_S"); s != "" {
		if n, err := strconv.Atoi(s); err == nil {
			hangS = n
		}
	}
	done := make(chan struct{})
	go func() {
		last := r.progress.Load()
		lastChange := time.Now()
		for {
			select {
			case <-done:
				return
			case <-time.After(500 * time.Millisecond):
			}
			p := r.progress.Load()
			if p != last {
				last, lastChange = p, time.Now()
				continue
			}
			if p > 0 && time.Since(lastChange) > time.Duration(hangS)*time.Second {
				os.WriteFile(outPath+".hang", []byte("hang"), 0o644)
				os.Exit(3)
			}
		}
	}()
	if c.Init != nil {
		c.Init(r)
	}
	start := time.Now()
	n := 0
	st, complete := explore.Run(explore.Config{DevBound: devBound(c, tier), Shard: shard, NShards: nshards,
		Stop: func() bool {
			n++
			if n&0x3f == 0 {
				r.progress.Add(1)
				return time.Now().After(r.deadline)
			}
			return false
		}}, func(x *explore.X) { c.Body(r, x) })
	close(done)
	res := workerResult{Stats: st, Complete: complete, Evaluations: r.evaluations, Validated: r.validated, Abstained: r.abstained,
		DistinctCap: r.distinctCap, Outcomes: r.outcomes, Counters: r.counters, Maxima: r.maxima, Samples: r.samples,
		WallS: time.Since(start).Seconds()}
	for _, v := range r.viol {
		res.Violations = append(res.Violations, v)
	}
	sort.Slice(res.Violations, func(i, j int) bool { return res.Violations[i].Signature < res.Violations[j].Signature })
	writeHashes(outPath+".all", r.all)
	writeHashes(outPath+".nt", r.nontriv)
	b, _ := json.Marshal(res)
	os.WriteFile(outPath+".tmp", b, 0o644)
	os.Rename(outPath+".tmp", outPath)
}

func writeHashes(path string, m map[uint64]struct{}) {
	xs := make([]uint64, 0, len(m))
	for h := range m {
		xs = append(xs, h)
	}
	sort.Slice(xs, func(i, j int) bool { return xs[i] < xs[j] })
	buf := make([]byte, 8*len(xs))
	for i, h := range xs {
		binary.LittleEndian.PutUint64(buf[8*i:], h)
	}
	os.WriteFile(path, buf, 0o644)
}

func readHashes(path string) []uint64 {
	b, err := os.ReadFile(path)
	if err != nil {
		return nil
	}
	xs := make([]uint64, len(b)/8)
	for i := range xs {
		xs[i] = binary.LittleEndian.Uint64(b[8*i:])
	}
	return xs
}

func unionCount(lists [][]uint64) int64 {
	total := 0
	for _, l := range lists {
		total += len(l)
	}
	all := make([]uint64, 0, total)
	for _, l := range lists {
		all = append(all, l...)
	}
	sort.Slice(all, func(i, j int) bool { return all[i] < all[j] })
	var n int64
	for i, h := range all {
		if i == 0 || h != all[i-1] {
			n++
		}
	}
	return n
}

// KnownFinding is one line of /verif/known_findings.jsonl.
type KnownFinding struct {
	Status    string `json:"status"` // "known" or "fixed"
	Property  string `json:"property"`
	Clause    string `json:"clause,omitempty"`
	Signature string `json:"signature"`
	What      string `json:"what"`
	Commit    string `json:"commit,omitempty"`
}

func loadKnown() []KnownFinding {
	b, err := os.ReadFile(filepath.Join(VerifDir, "known_findings.jsonl"))
	if err != nil {
		return nil
	}
	var out []KnownFinding
	for _, ln := range strings.Split(string(b), "\n") {
		ln = strings.TrimSpace(ln)
		if ln == "" || strings.HasPrefix(ln, "#") {
			continue
		}
		var k KnownFinding
		if err := json.Unmarshal([]byte(ln), &k); err != nil {
			fmt.Fprintf(os.Stderr, "known_findings.jsonl: bad line: %v\n", err)
			os.Exit(2)
		}
		out = append(out, k)
	}
	return out
}

// Main is the entry point of cmd/check.
func Main(args []string) int {
	// in every mode (coordinator, worker, replay) the step budget must run out before the stack does:
	// 1e6 steps of the deepest recursion seen (json.Marshal through MarshalJSON methods, ~1.5 KB of stack per step)
	debug.SetMaxStack(4 << 30)
	// the library's default log callbacks write every rejected request to the standard logger: gigabytes per run.
	// (runtime crash reports do not go through the log package and still reach the worker's stderr file)
	log.SetOutput(io.Discard)
	if len(args) < 1 {
		fmt.Fprintln(os.Stderr, "usage: check <ID> quick|thorough | check <ID> --replay <file> | check list")
		return 2
	}
	if args[0] == "list" {
		ids := make([]string, 0, len(registry))
		for id := range registry {
			ids = append(ids, id)
		}
		sort.Strings(ids)
		fmt.Println(strings.Join(ids, " "))
		return 0
	}
	c, ok := registry[args[0]]
	if !ok {
		fmt.Fprintf(os.Stderr, "unknown check %q\n", args[0])
		return 2
	}
	seed := int64(0)
	if s := os.Getenv("VERIF_SEED"); s != "" {
		seed, _ = strconv.ParseInt(s, 10, 64)
	}
	tier := "quick"
	if t := os.Getenv("VERIF_TIER"); t == "quick" || t == "thorough" {
		tier = t
	}
	rest := args[1:]
	for i := 0; i < len(rest); i++ {
		switch rest[i] {
		case "quick", "thorough":
			tier = rest[i]
		case "--replay":
			if i+1 >= len(rest) {
				return 2
			}
			return replayFile(c, rest[i+1], seed)
		case "--worker":
			// --worker shard nshards out [poisonfile]
			shard, _ := strconv.Atoi(rest[i+1])
			nsh, _ := strconv.Atoi(rest[i+2])
			out := rest[i+3]
			var poison [][]int
			if i+4 < len(rest) {
				b, _ := os.ReadFile(rest[i+4])
				json.Unmarshal(b, &poison)
			}
			Worker(c, tier, seed, shard, nsh, poison, out)
			return 0
		}
	}
	return coordinate(c, tier, seed)
}

func replayFile(c *Check, path string, seed int64) int {
	b, err := os.ReadFile(path)
	if err != nil {
		fmt.Fprintln(os.Stderr, err)
		return 2
	}
	var v struct {
		Tier   string `json:"tier"`
		Vector []int  `json:"vector"`
		Clause string `json:"clause"`
	}
	if err := json.Unmarshal(b, &v); err != nil {
		fmt.Fprintln(os.Stderr, err)
		return 2
	}
	if v.Tier == "" {
		v.Tier = "quick"
	}
	r := newRun(c, v.Tier, seed)
	r.Replay = true
	if c.Init != nil {
		c.Init(r)
	}
	explore.Replay(devBound(c, v.Tier), v.Vector, func(x *explore.X) { c.Body(r, x) })
	if len(r.viol) > 0 {
		for _, vv := range r.viol {
			fmt.Printf("VIOLATION property=%s replay=%s clause=%s\n", c.ID, path, vv.Clause)
		}
		return 1
	}
	fmt.Printf("replay of %s: no violation\n", path)
	return 0
}

// reexec re-runs one vector in-process and returns the violations it produces (determinism check).
func reexec(c *Check, tier string, seed int64, vec []int) (sigs []string, diverged bool) {
	defer func() {
		if p := recover(); p != nil {
			if _, ok := p.(explore.Diverged); ok {
				diverged = true
				return
			}
			panic(p)
		}
	}()
	r := newRun(c, tier, seed)
	r.noShrink = true
	if c.Init != nil {
		c.Init(r)
	}
	explore.Replay(devBound(c, tier), vec, func(x *explore.X) { c.Body(r, x) })
	for k := range r.viol {
		sigs = append(sigs, k)
	}
	sort.Strings(sigs)
	return
}

func coordinate(c *Check, tier string, seed int64) int {
	start := time.Now()
	nw := runtime.NumCPU()
	if s := os.Getenv("VERIF_WORKERS"); s != "" {
		if n, err := strconv.Atoi(s); err == nil && n > 0 {
			nw = n
		}
	}
	if c.Serial {
		nw = 1
	}
	exe, _ := os.Executable()
	dir := runDir()
	base := filepath.Join(dir, fmt.Sprintf("%s-%s-%d", c.ID, tier, os.Getpid()))
	type wstate struct {
		out    string
		poison [][]int
		fatal  []*Violation
		res    *workerResult
		tries  int
		killed map[string]int // vector -> times a worker was killed from outside while executing it
	}
	ws := make([]*wstate, nw)
	for i := range ws {
		ws[i] = &wstate{out: fmt.Sprintf("%s-w%d.json", base, i)}
	}
	machineryFailure := ""
	launch := func(i int) *exec.Cmd {
		w := ws[i]
		os.Remove(w.out)
		args := []string{c.ID, tier, "--worker", strconv.Itoa(i), strconv.Itoa(nw), w.out}
		if len(w.poison) > 0 {
			b, _ := json.Marshal(w.poison)
			os.WriteFile(w.out+".poison", b, 0o644)
			args = append(args, w.out+".poison")
		}
		cmd := exec.Command(exe, args...)
		cmd.Stdout = os.Stderr
		errf, _ := os.Create(w.out + ".stderr")
		cmd.Stderr = errf
		cmd.Env = append(os.Environ(), "VERIF_SEED="+strconv.FormatInt(seed, 10))
		if err := cmd.Start(); err != nil {
			machineryFailure = "cannot start worker: " + err.Error()
			return nil
		}
		return cmd
	}
	pending := map[int]*exec.Cmd{}
	for i := range ws {
		if cmd := launch(i); cmd != nil {
			pending[i] = cmd
		}
	}
	for len(pending) > 0 {
		for i, cmd := range pending {
			err := cmd.Wait()
			delete(pending, i)
			w := ws[i]
			b, rerr := os.ReadFile(w.out)
			if err == nil && rerr == nil {
				var res workerResult
				if json.Unmarshal(b, &res) == nil {
					w.res = &res
					break
				}
			}
			// the worker died: attribute to the vector it was executing
			vec := readCur(w.out + ".cur")
			stderrB, _ := os.ReadFile(w.out + ".stderr")
			stderrS := string(stderrB)
			kind := "fatal"
			if _, herr := os.Stat(w.out + ".hang"); herr == nil {
				kind = "hang"
				os.Remove(w.out + ".hang")
			}
			// A worker that was killed by a signal it did not raise itself (no Go crash text, no hang marker) was
			// killed from outside (memory pressure of the host, an operator). That is attributed to the
			// execution only when it happens at the same execution again; otherwise the shard is restarted.
			if kind != "hang" && vec != nil && err != nil && strings.Contains(err.Error(), "signal: killed") &&
				!strings.Contains(stderrS, "fatal error") && !strings.Contains(stderrS, "panic:") && !strings.Contains(stderrS, "goroutine ") {
				if w.killed == nil {
					w.killed = map[string]int{}
				}
				k := fmt.Sprint(vec)
				w.killed[k]++
				if w.killed[k] < 2 && w.tries < 6 {
					fmt.Fprintf(os.Stderr, "worker %d was killed from outside at %s: shard restarted\n", i, k)
					w.tries++
					if cmd2 := launch(i); cmd2 != nil {
						pending[i] = cmd2
					}
					break
				}
			}
			if vec == nil || w.tries >= 6 {
				machineryFailure = fmt.Sprintf("worker %d died without attributable execution: %v\n%s", i, err, tail(stderrS, 2000))
				break
			}
			site := PanicSite(stderrS)
			cls := "fatal"
			switch {
			case kind == "hang":
				cls = "hang"
			case strings.Contains(stderrS, "stack exceeds"):
				cls = "stack-overflow"
			case strings.Contains(stderrS, "out of memory"):
				cls = "out-of-memory"
			case strings.Contains(stderrS, "concurrent map"):
				cls = "concurrent-map-access"
			case strings.Contains(stderrS, "DATA RACE"):
				cls = "data-race"
			}
			clause := "no-panic"
			if kind == "hang" {
				clause = "terminates"
			}
			w.fatal = append(w.fatal, &Violation{Property: c.ID, Clause: clause, Signature: cls + "@" + site,
				Detail: map[string]any{"worker_exit": fmt.Sprint(err), "kind": cls}, Vector: vec, Count: 1, Site: site, Stack: tail(stderrS, 4000)})
			w.poison = append(w.poison, vec)
			w.tries++
			if cmd2 := launch(i); cmd2 != nil {
				pending[i] = cmd2
			}
			break
		}
		if machineryFailure != "" {
			for _, cmd := range pending {
				cmd.Process.Kill()
				cmd.Wait()
			}
			break
		}
	}
	defer func() {
		matches, _ := filepath.Glob(base + "-w*")
		for _, m := range matches {
			os.Remove(m)
		}
	}()
	if machineryFailure != "" {
		fmt.Fprintln(os.Stderr, "MACHINERY FAILURE:", machineryFailure)
		return 2
	}
	// merge
	var st explore.Stats
	complete := true
	var evals, validated, abstained int64
	outcomes, counters, maxima := map[string]int64{}, map[string]int64{}, map[string]int64{}
	viol := map[string]*Violation{}
	var samples []sample
	distinctCap := false
	var allL, ntL [][]uint64
	for _, w := range ws {
		r := w.res
		st.Executions += r.Stats.Executions
		st.Owned += r.Stats.Owned
		st.Transitions += r.Stats.Transitions
		if r.Stats.MaxDepth > st.MaxDepth {
			st.MaxDepth = r.Stats.MaxDepth
		}
		if r.Stats.MaxDevs > st.MaxDevs {
			st.MaxDevs = r.Stats.MaxDevs
		}
		complete = complete && r.Complete
		evals += r.Evaluations
		validated += r.Validated
		abstained += r.Abstained
		distinctCap = distinctCap || r.DistinctCap
		for k, v := range r.Outcomes {
			outcomes[k] += v
		}
		for k, v := range r.Counters {
			counters[k] += v
		}
		for k, v := range r.Maxima {
			if v > maxima[k] {
				maxima[k] = v
			}
		}
		for _, v := range append(r.Violations, w.fatal...) {
			key := v.Clause + "|" + v.Signature
			if old, ok := viol[key]; ok {
				old.Count += v.Count
				if lessVec(v.Vector, old.Vector) {
					v.Count = old.Count
					viol[key] = v
				}
			} else {
				viol[key] = v
			}
		}
		samples = append(samples, r.Samples...)
		allL = append(allL, readHashes(w.out+".all"))
		ntL = append(ntL, readHashes(w.out+".nt"))
	}
	// generation work is repeated by every worker; transitions are reported for the union tree:
	// owned executions are disjoint, so subtract nothing but report both numbers.
	distinctAll := unionCount(allL)
	distinctNT := unionCount(ntL)
	sort.Slice(samples, func(i, j int) bool { return samples[i].Rank < samples[j].Rank })
	if len(samples) > 6 {
		samples = samples[:6]
	}
	var sampleCases []any
	for _, s := range samples {
		sampleCases = append(sampleCases, s.Case)
	}

	// classify violations
	known := loadKnown()
	keys := make([]string, 0, len(viol))
	for k := range viol {
		keys = append(keys, k)
	}
	sort.Strings(keys)
	exit := 0
	var knownHit []string
	newViolations := 0
	nondet := 0
	os.MkdirAll(filepath.Join(VerifDir, "replays", c.ID), 0o755)
	for _, k := range keys {
		v := viol[k]
		matched := false
		for _, kf := range known {
			if kf.Status == "known" && kf.Property == c.ID && kf.Signature == v.Signature && (kf.Clause == "" || kf.Clause == v.Clause) {
				matched = true
				line := fmt.Sprintf("KNOWN-FINDING: property=%s %s", c.ID, kf.What)
				if !contains(knownHit, line) {
					knownHit = append(knownHit, line)
					fmt.Println(line)
				}
			}
		}
		if matched {
			continue
		}
		// determinism self-check: re-execute 5x from the choice vector (crashes of the worker are not re-run in-process)
		fatal := strings.HasPrefix(v.Signature, "stack-overflow@") || strings.HasPrefix(v.Signature, "fatal@") || strings.HasPrefix(v.Signature, "hang@") || strings.HasPrefix(v.Signature, "out-of-memory@") || strings.HasPrefix(v.Signature, "concurrent-map-access@") || strings.HasPrefix(v.Signature, "data-race@")
		if !fatal && os.Getenv("VERIF_NO_RECHECK") == "" {
			stable := true
			for i := 0; i < 5; i++ {
				sigs, div := reexec(c, tier, seed, v.Vector)
				if div || !contains(sigs, k) {
					stable = false
					break
				}
			}
			if !stable {
				nondet++
				fmt.Fprintf(os.Stderr, "NONDETERMINISM: %s %s vector=%v does not reproduce on re-execution\n", c.ID, k, v.Vector)
				continue
			}
		}
		newViolations++
		name := fmt.Sprintf("%016x.json", hash64(k))
		path := filepath.Join(VerifDir, "replays", c.ID, name)
		rec := map[string]any{"property": c.ID, "tier": tier, "clause": v.Clause, "signature": v.Signature, "vector": v.Vector,
			"detail": v.Detail, "count": v.Count, "site": v.Site, "stack": v.Stack}
		b, _ := json.MarshalIndent(rec, "", " ")
		os.WriteFile(path, b, 0o644)
		fmt.Printf("VIOLATION property=%s replay=%s\n", c.ID, path)
		fmt.Printf("  clause=%s signature=%s count=%d\n", v.Clause, v.Signature, v.Count)
		exit = 1
	}
	vacuous := ""
	if c.MinOutcomes > 0 && len(outcomes) < c.MinOutcomes && complete {
		vacuous = fmt.Sprintf("only %d distinct outcome classes (need %d)", len(outcomes), c.MinOutcomes)
	}

	cov := map[string]any{
		"evaluations":                   evals,
		"distinct_nontrivial":           distinctNT,
		"distinct_cases":                distinctAll,
		"distinct_counting_capped":      distinctCap,
		"rule":                          c.Rule,
		"samples":                       sampleCases,
		"states":                        distinctAll,
		"transitions":                   st.Transitions,
		"traces_validated_against_impl": validated,
		"abstained":                     abstained,
		"executions":                    st.Owned,
		"executions_incl_foreign_shard_generation": st.Executions,
		"max_choice_depth":                         st.MaxDepth,
		"deviation_bound":                          devBound(c, tier),
		"max_deviations_taken":                     st.MaxDevs,
		"exhaustive":                               complete,
		"cap_hit":                                  !complete,
		"cap_seconds":                              capSeconds(c, tier),
		"distinct_outcomes":                        outcomes,
		"counters":                                 counters,
		"maxima":                                   maxima,
		"known_findings_hit":                       knownHit,
		"workers":                                  nw,
		"nondeterminism":                           nondet,
		"explanation":                              "stateless exhaustive exploration of the real implementation over the choice tree of the generator; every execution is judged by the oracle of this property",
	}
	if c.Bounds != nil {
		cov["bounds"] = c.Bounds(tier)
	}
	if c.Post != nil {
		c.Post(tier, cov)
	}
	ev := map[string]any{
		"property_id": c.ID, "tier": tier, "seed": seed, "level": "model_checking",
		"coverage": cov, "assumptions": c.Assumptions, "wall_s": time.Since(start).Seconds(), "violations": newViolations,
	}
	b, _ := json.MarshalIndent(ev, "", " ")
	os.MkdirAll(filepath.Join(VerifDir, "evidence"), 0o755)
	os.WriteFile(filepath.Join(VerifDir, "evidence", c.ID+".json"), b, 0o644)
	fmt.Printf("%s %s: executions=%d evaluations=%d distinct=%d nontrivial=%d transitions=%d validated=%d abstained=%d exhaustive=%v outcomes=%d violations=%d known=%d wall=%.1fs\n",
		c.ID, tier, st.Owned, evals, distinctAll, distinctNT, st.Transitions, validated, abstained, complete, len(outcomes), newViolations, len(knownHit), time.Since(start).Seconds())
	if exit == 0 && nondet > 0 {
		fmt.Fprintln(os.Stderr, "MACHINERY FAILURE: nondeterministic violation(s); see stderr")
		return 2
	}
	if exit == 0 && vacuous != "" {
		fmt.Fprintln(os.Stderr, "MACHINERY FAILURE: vacuous exploration:", vacuous)
		return 2
	}
	return exit
}

func lessVec(a, b []int) bool {
	if len(a) != len(b) {
		return len(a) < len(b)
	}
	for i := range a {
		if a[i] != b[i] {
			return a[i] < b[i]
		}
	}
	return false
}

func contains(xs []string, s string) bool {
	for _, x := range xs {
		if x == s {
			return true
		}
	}
	return false
}

func tail(s string, n int) string {
	if len(s) > n {
		return s[:n]
	}
	return s
}

func readCur(path string) []int {
	b, err := os.ReadFile(path)
	if err != nil || len(b) < 8 {
		return nil
	}
	n := binary.LittleEndian.Uint64(b)
	if int(n)+8 > len(b) {
		return nil
	}
	var v []int
	if json.Unmarshal(b[8:8+n], &v) != nil {
		return nil
	}
	return v
}

// Own tells whether this worker executes the case generated so far; it marks the start of the
// execution for crash attribution.
func (r *Run) Own(x *explore.X) bool {
	if !x.Mine() {
		return false
	}
	if r.Poisoned(x) {
		return false
	}
	r.Begin(x)
	return true
}
