// Package c15ops holds the operation alphabet of C15 (shared by the controlled-scheduler harness and
// the free-running race pass). It uses only the public API of kin-openapi.
package c15ops

import (
	"bytes"
	"context"
	"fmt"
	"io"
	"net/http"
	"reflect"
	"regexp"
	"strings"
	"sync/atomic"

	"github.com/getkin/kin-openapi/openapi3"
	"github.com/getkin/kin-openapi/openapi3filter"
	"github.com/getkin/kin-openapi/openapi3gen"
	"github.com/getkin/kin-openapi/routers"
	"github.com/getkin/kin-openapi/routers/gorillamux"
	"github.com/getkin/kin-openapi/routers/legacy"
)

const Spec = `{"openapi":"3.0.3","info":{"title":"t","version":"1"},"servers":[{"url":"http://h.example"},{"url":"http://beta.example/v1"}],"paths":{"/r":{
 "parameters":[{"name":"X-A","in":"header","schema":{"type":"string"}},{"name":"X-B","in":"header","schema":{"type":"string"}},{"name":"X-C","in":"header","schema":{"type":"string"}}],
 "get":{"parameters":[{"name":"q","in":"query","required":true,"schema":{"type":"string","pattern":"^[a-z]+[0-9]$"}}],
        "responses":{"200":{"description":"ok","content":{"application/json":{"schema":{"$ref":"#/components/schemas/Out"}}}}}},
 "post":{"parameters":[{"name":"X-Post","in":"header","schema":{"type":"string","pattern":"^[a-z]*$"}}],"requestBody":{"required":true,"content":{"application/json":{"schema":{"$ref":"#/components/schemas/In"}}}},
        "responses":{"201":{"description":"created"}}}}},
 "components":{"schemas":{
  "In":{"type":"object","required":["name"],"properties":{"name":{"type":"string","pattern":"^[a-z]+$"},"tags":{"type":"array","uniqueItems":true,"items":{"type":"string"}},"kind":{"type":"string","default":"plain"},"n":{"type":"integer","default":3}}},
  "Out":{"type":"object","required":["ok"],"properties":{"ok":{"type":"boolean"},"id":{"type":"string","pattern":"^[0-9a-f]+$"}}}}}}`

// Shared is the state the threads share: one loaded, validated document and its routers.
type Shared struct {
	Doc     *openapi3.T
	Gorilla routers.Router
	Legacy  routers.Router
	Schema  *openapi3.Schema
}

func NewShared() *Shared {
	doc, err := openapi3.NewLoader().LoadFromData([]byte(Spec))
	if err != nil {
		panic(err)
	}
	if err := doc.Validate(context.Background()); err != nil {
		panic(err)
	}
	g, err := gorillamux.NewRouter(doc)
	if err != nil {
		panic(err)
	}
	l, err := legacy.NewRouter(doc)
	if err != nil {
		panic(err)
	}
	return &Shared{Doc: doc, Gorilla: g, Legacy: l, Schema: doc.Components.Schemas["In"].Value}
}

// Op is one call on the shared state; it returns a verdict string that must not depend on what other threads do.
var encoderSeq atomic.Int64

type Op struct {
	Name string
	Run  func(s *Shared, between func()) string
}

func verdict(err error) string {
	if err == nil {
		return "ok"
	}
	msg := err.Error()
	if i := strings.IndexByte(msg, '\n'); i > 0 {
		msg = msg[:i]
	}
	if len(msg) > 100 {
		msg = msg[:100]
	}
	return "error: " + msg
}

func routeAndValidate(s *Shared, router routers.Router, method, target, body string, between func()) string {
	var rd io.Reader
	if body != "" {
		rd = strings.NewReader(body)
	}
	req, _ := http.NewRequest(method, target, rd)
	if body != "" {
		req.Header.Set("Content-Type", "application/json")
	}
	route, pp, err := router.FindRoute(req)
	if err != nil {
		return "route " + verdict(err)
	}
	if between != nil {
		between() // a scheduling point between finding the route and using it
	}
	in := &openapi3filter.RequestValidationInput{Request: req, PathParams: pp, Route: route}
	v := "request " + verdict(openapi3filter.ValidateRequest(context.Background(), in))
	if route.Method != method {
		v += fmt.Sprintf(" (route.Method=%s)", route.Method)
	}
	if route.Server != nil {
		v += " server=" + route.Server.URL // which of the document's servers the route reports
	}
	if req.Body != nil && body != "" {
		b, _ := io.ReadAll(req.Body)
		v += " forwarded=" + string(b)
	}
	if method == "GET" {
		rin := &openapi3filter.ResponseValidationInput{RequestValidationInput: in, Status: 200, Header: http.Header{"Content-Type": {"application/json"}}, Body: io.NopCloser(bytes.NewReader([]byte(`{"ok":true,"id":"0af"}`)))}
		v += " response " + verdict(openapi3filter.ValidateResponse(context.Background(), rin))
	}
	return v
}

var typeCounter int

// FreshStructType returns a struct type nobody has generated a schema for yet.
func FreshStructType(n int) reflect.Type {
	return reflect.StructOf([]reflect.StructField{
		{Name: "A", Type: reflect.TypeOf(0), Tag: reflect.StructTag(fmt.Sprintf(`json:"a" verif:"%d"`, n))},
		{Name: "B", Type: reflect.TypeOf([]string{}), Tag: `json:"b,omitempty"`},
	})
}

// Ops is the alphabet. Generation ops take the type from Shared via closure argument n set by the harness.
var Ops = map[string]Op{
	"GET-valid": {"GET-valid", func(s *Shared, b func()) string {
		return routeAndValidate(s, s.Gorilla, "GET", "http://h.example/r?q=abc1", "", b)
	}},
	"GET-invalid": {"GET-invalid", func(s *Shared, b func()) string {
		return routeAndValidate(s, s.Gorilla, "GET", "http://h.example/r?q=ABC", "", b)
	}},
	"POST-valid": {"POST-valid", func(s *Shared, b func()) string {
		return routeAndValidate(s, s.Gorilla, "POST", "http://h.example/r", `{"name":"abc","tags":["x","y"]}`, b)
	}},
	"POST-invalid": {"POST-invalid", func(s *Shared, b func()) string {
		return routeAndValidate(s, s.Gorilla, "POST", "http://h.example/r", `{"name":"ABC","tags":["x","x"]}`, b)
	}},
	"POST-legacy": {"POST-legacy", func(s *Shared, b func()) string {
		return routeAndValidate(s, s.Legacy, "POST", "http://h.example/r", `{"name":"abc"}`, b)
	}},
	"POST-legacy-beta": {"POST-legacy-beta", func(s *Shared, b func()) string {
		return routeAndValidate(s, s.Legacy, "POST", "http://beta.example/v1/r", `{"name":"abc"}`, b)
	}},
	"GET-beta": {"GET-beta", func(s *Shared, b func()) string {
		return routeAndValidate(s, s.Gorilla, "GET", "http://beta.example/v1/r?q=abc1", "", b)
	}},
	"VisitJSON": {"VisitJSON", func(s *Shared, b func()) string {
		return "visit " + verdict(s.Schema.VisitJSON(map[string]any{"name": "abc", "tags": []any{"x", "x"}}))
	}},
	"VisitJSON-ok": {"VisitJSON-ok", func(s *Shared, b func()) string {
		return "visit " + verdict(s.Schema.VisitJSON(map[string]any{"name": "abc", "tags": []any{"x"}}))
	}},
	"RegisterEncoder": {"RegisterEncoder", func(s *Shared, b func()) string {
		// every invocation registers its own content type: what one invocation observes is then independent of the others
		// (two invocations on one key would legitimately see each other's unregistration)
		ct := fmt.Sprintf("application/x-verif-%d", encoderSeq.Add(1))
		openapi3filter.RegisterBodyEncoder(ct, func(body any) ([]byte, error) { return []byte("x"), nil })
		enc := openapi3filter.RegisteredBodyEncoder(ct)
		openapi3filter.UnregisterBodyEncoder(ct)
		return fmt.Sprint("registered=", enc != nil)
	}},
}

// PatternOp validates "ABC" against a string schema of its own whose pattern text is unique to n, with the default
// regular-expression engine (rejects) or with a case-insensitive engine given for this call (accepts). The two
// invocations of a scenario share nothing but the pattern text - and whatever the library keeps per pattern text.
func PatternOp(n int, otherEngine bool) Op {
	name := "PAT-default"
	if otherEngine {
		name = "PAT-other-engine"
	}
	return Op{name, func(s *Shared, b func()) string {
		schema := openapi3.NewStringSchema().WithPattern(fmt.Sprintf("^[a-z]+$|^verif%d$", n))
		var opts []openapi3.SchemaValidationOption
		if otherEngine {
			opts = append(opts, openapi3.SetSchemaRegexCompiler(func(expr string) (openapi3.RegexMatcher, error) {
				return regexp.Compile("(?i)" + expr)
			}))
		}
		if err := schema.VisitJSON("ABC", opts...); err != nil {
			return "pattern rejects"
		}
		return "pattern accepts"
	}}
}

// GenOp generates a schema for the n-th fresh struct type.
func GenOp(n int) Op {
	return Op{"NewSchemaRefForValue", func(s *Shared, b func()) string {
		t := FreshStructType(n)
		ref, err := openapi3gen.NewSchemaRefForValue(reflect.New(t).Elem().Interface(), nil)
		if err != nil {
			return "gen " + verdict(err)
		}
		return fmt.Sprintf("gen ok properties=%d", len(ref.Value.Properties))
	}}
}
