// racepass is the free-running race-detector pass of C15: the same operations as the controlled
// scheduler's threads, run by real goroutines for every pair of operations. It is built with -race and
// WITHOUT the instrumentation overlay (cooperative hand-offs would hide races from the detector).
package main

import (
	"fmt"
	"os"
	"sort"
	"strconv"
	"sync"

	"verifmc/c15ops"
)

func main() {
	reps := 30
	if len(os.Args) > 1 {
		reps, _ = strconv.Atoi(os.Args[1])
	}
	names := make([]string, 0, len(c15ops.Ops))
	for n := range c15ops.Ops {
		names = append(names, n)
	}
	sort.Strings(names)
	ops := []c15ops.Op{}
	for _, n := range names {
		ops = append(ops, c15ops.Ops[n])
	}
	pairs, calls, mismatches := 0, 0, 0
	typeN := 1 << 20
	for i := range ops {
		for j := i; j < len(ops)+1; j++ {
			pairs++
			s := c15ops.NewShared()
			for rep := 0; rep < reps; rep++ {
				typeN++
				a := ops[i]
				var b c15ops.Op
				if j == len(ops) {
					b = c15ops.GenOp(typeN)
					a = c15ops.GenOp(typeN) // the same uncached type from both goroutines
					if i > 0 {
						a = ops[i]
					}
				} else {
					b = ops[j]
				}
				alone := map[string]string{}
				for _, o := range []c15ops.Op{a, b} {
					if o.Name != "NewSchemaRefForValue" {
						alone[o.Name] = o.Run(c15ops.NewShared(), nil)
					}
				}
				var wg sync.WaitGroup
				res := make([]string, 4)
				for k, o := range []c15ops.Op{a, b, a, b} {
					wg.Add(1)
					go func(k int, o c15ops.Op) {
						defer wg.Done()
						res[k] = o.Run(s, nil)
					}(k, o)
				}
				wg.Wait()
				calls += 4
				for k, o := range []c15ops.Op{a, b, a, b} {
					if want, ok := alone[o.Name]; ok && res[k] != want {
						mismatches++
						fmt.Printf("MISMATCH op=%s alone=%q concurrent=%q (with %s)\n", o.Name, want, res[k], []c15ops.Op{a, b}[1-k%2].Name)
					}
				}
			}
		}
	}
	fmt.Printf("RACEPASS pairs=%d calls=%d mismatches=%d\n", pairs, calls, mismatches)
	if mismatches > 0 {
		os.Exit(3)
	}
}
