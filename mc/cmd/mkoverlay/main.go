// mkoverlay generates the instrumentation overlay for `go build -overlay` from /repo's current
// working tree: every range over a map iterates in an order the checker owns, every function
// entry and loop head counts a step, and the virtual package verifhook is added to the module.
// /repo is never modified. The result is cached by the hash of the sources.
package main

import (
	"crypto/sha256"
	"encoding/hex"
	"encoding/json"
	"fmt"
	"go/ast"
	"go/build"
	"go/importer"
	"go/parser"
	"go/token"
	"go/types"
	"os"
	"path/filepath"
	"sort"
	"strings"
)

const (
	repo     = "/repo"
	modPath  = "github.com/getkin/kin-openapi"
	hookPath = modPath + "/verifhook"
)

type edit struct {
	start, end int // byte offsets: replace [start,end) by text
	text       string
}

func main() {
	vdir := os.Getenv("VERIF_DIR")
	if vdir == "" {
		vdir = "/verif"
	}
	outDir := vdir + "/.cache/overlay"
	hookSrc := vdir + "/mc/hooksrc"
	pkgs := findPackages()
	// hash of inputs
	h := sha256.New()
	selfSrc, _ := os.ReadFile(vdir + "/mc/cmd/mkoverlay/main.go")
	h.Write(selfSrc)
	var files []string
	for _, p := range pkgs {
		for _, f := range p.files {
			files = append(files, filepath.Join(p.dir, f))
		}
	}
	filepath.Walk(hookSrc, func(path string, info os.FileInfo, err error) error {
		if err == nil && !info.IsDir() {
			files = append(files, path)
		}
		return nil
	})
	sort.Strings(files)
	for _, f := range files {
		b, _ := os.ReadFile(f)
		h.Write([]byte(f))
		h.Write(b)
	}
	sum := hex.EncodeToString(h.Sum(nil))
	if b, err := os.ReadFile(filepath.Join(outDir, "hash")); err == nil && string(b) == sum {
		if _, err := os.Stat(filepath.Join(outDir, "overlay.json")); err == nil {
			fmt.Println("overlay up to date")
			return
		}
	}
	os.RemoveAll(outDir)
	os.MkdirAll(outDir, 0o755)
	replace := map[string]string{}
	// virtual hook packages
	filepath.Walk(hookSrc, func(path string, info os.FileInfo, err error) error {
		if err == nil && !info.IsDir() && strings.HasSuffix(path, ".go") {
			rel, _ := filepath.Rel(hookSrc, path)
			replace[filepath.Join(repo, rel)] = path
		}
		return nil
	})
	os.Chdir(repo)
	fset := token.NewFileSet()
	imp := importer.ForCompiler(fset, "source", nil)
	stats := map[string]any{}
	totalRanges, totalEnters, skippedTP, totalYields, syncRewrites := 0, 0, 0, 0, 0
	for _, p := range pkgs {
		var asts []*ast.File
		srcs := map[*ast.File][]byte{}
		names := map[*ast.File]string{}
		for _, f := range p.files {
			path := filepath.Join(p.dir, f)
			src, err := os.ReadFile(path)
			if err != nil {
				fail(err)
			}
			af, err := parser.ParseFile(fset, path, src, parser.ParseComments)
			if err != nil {
				fail(err)
			}
			asts = append(asts, af)
			srcs[af] = src
			names[af] = path
		}
		info := &types.Info{Types: map[ast.Expr]types.TypeAndValue{}, Uses: map[*ast.Ident]types.Object{}}
		var pkgTypes *types.Package
		conf := types.Config{Importer: imp, Error: func(err error) {}}
		var cerr error
		if pkgTypes, cerr = conf.Check(p.importPath, fset, asts, info); cerr != nil {
			fail(fmt.Errorf("type-check %s: %v", p.importPath, cerr))
		}
		// package-level variables of this package (C15: accesses are scheduling points)
		isPkgVar := func(id *ast.Ident) string {
			obj, ok := info.Uses[id].(*types.Var)
			if !ok || obj.IsField() || obj.Pkg() != pkgTypes {
				return ""
			}
			if obj.Parent() == pkgTypes.Scope() {
				if types.Identical(obj.Type(), types.Universe.Lookup("error").Type()) {
					return "" // error sentinels are never written after initialisation
				}
				return obj.Name()
			}
			return ""
		}
		// first package-level variable mentioned by a statement, not looking into nested blocks or function literals
		var touches func(n ast.Node) string
		touches = func(n ast.Node) string {
			found := ""
			ast.Inspect(n, func(c ast.Node) bool {
				if found != "" || c == nil {
					return false
				}
				switch x := c.(type) {
				case *ast.BlockStmt:
					if c != n {
						return false
					}
				case *ast.FuncLit:
					return false
				case *ast.Ident:
					if name := isPkgVar(x); name != "" {
						found = name
					}
				}
				return true
			})
			return found
		}
		for _, af := range asts {
			src := srcs[af]
			var edits []edit
			off := func(pos token.Pos) int { return fset.Position(pos).Offset }
			nkv := 0
			yieldBefore := func(list []ast.Stmt) {
				for _, st := range list {
					switch st.(type) {
					case *ast.DeclStmt, *ast.EmptyStmt, *ast.LabeledStmt, *ast.BlockStmt, *ast.CaseClause, *ast.CommClause:
						continue
					}
					if name := touches(st); name != "" {
						edits = append(edits, edit{off(st.Pos()), off(st.Pos()), "verifhook.Yield(\"" + name + "\"); "})
						totalYields++
					}
				}
			}
			ast.Inspect(af, func(n ast.Node) bool {
				switch s := n.(type) {
				case *ast.BlockStmt:
					yieldBefore(s.List)
				case *ast.CaseClause:
					yieldBefore(s.Body)
				case *ast.CommClause:
					yieldBefore(s.Body)
				}
				switch s := n.(type) {
				case *ast.FuncDecl:
					if s.Body != nil {
						edits = append(edits, edit{off(s.Body.Lbrace) + 1, off(s.Body.Lbrace) + 1, " verifhook.Enter();"})
						totalEnters++
					}
				case *ast.FuncLit:
					edits = append(edits, edit{off(s.Body.Lbrace) + 1, off(s.Body.Lbrace) + 1, " verifhook.Enter();"})
					totalEnters++
				case *ast.ForStmt:
					edits = append(edits, edit{off(s.Body.Lbrace) + 1, off(s.Body.Lbrace) + 1, " verifhook.Enter();"})
					totalEnters++
				case *ast.RangeStmt:
					tv, ok := info.Types[s.X]
					isMap := false
					if ok {
						if _, m := tv.Type.Underlying().(*types.Map); m {
							isMap = true
						} else if _, tp := tv.Type.(*types.TypeParam); tp {
							skippedTP++
						}
					}
					lb := off(s.Body.Lbrace)
					keyName, valName := identName(s.Key), identName(s.Value)
					if !isMap || (keyName == "" && valName == "") {
						edits = append(edits, edit{lb + 1, lb + 1, " verifhook.Enter();"})
						totalEnters++
						return true
					}
					if s.Key != nil && keyName == "" || s.Value != nil && valName == "" {
						if !(isBlankOrNil(s.Key) || keyName != "") || !(isBlankOrNil(s.Value) || valName != "") {
							fail(fmt.Errorf("%s: range with non-identifier key/value", fset.Position(s.Pos())))
						}
					}
					xs, xe := off(s.X.Pos()), off(s.X.End())
					xText := string(src[xs:xe])
					if strings.Contains(xText, "func") && strings.Contains(xText, "{") {
						fail(fmt.Errorf("%s: function literal in range operand", fset.Position(s.Pos())))
					}
					nkv++
					kv := fmt.Sprintf("__kv%d", nkv)
					assignOp := ":="
					if s.Tok == token.ASSIGN {
						assignOp = "="
					}
					var lhs, rhs []string
					if keyName != "" && keyName != "_" {
						lhs = append(lhs, keyName)
						rhs = append(rhs, kv+".K")
					}
					if valName != "" && valName != "_" {
						lhs = append(lhs, valName)
						rhs = append(rhs, kv+".V")
					}
					hdr := fmt.Sprintf("for _, %s := range verifhook.Pairs(%s) { verifhook.Enter(); %s %s %s;", kv, xText, strings.Join(lhs, ", "), assignOp, strings.Join(rhs, ", "))
					if len(lhs) == 0 {
						hdr = fmt.Sprintf("for range verifhook.Pairs(%s) { verifhook.Enter();", xText)
					}
					// newlines inside the original header are preserved as a count to keep line numbers stable
					nl := strings.Count(string(src[off(s.For):lb+1]), "\n")
					hdr += strings.Repeat("\n", nl)
					edits = append(edits, edit{off(s.For), lb + 1, hdr})
					totalRanges++
					totalEnters++
				}
				return true
			})
			for _, imp := range af.Imports {
				if imp.Path.Value == "\"sync\"" && imp.Name == nil {
					edits = append(edits, edit{off(imp.Path.Pos()), off(imp.Path.End()), "sync \"" + hookPath + "/vsync\""})
					syncRewrites++
				}
			}
			if len(edits) == 0 {
				continue
			}
			// import on the package line
			nameEnd := off(af.Name.End())
			edits = append(edits, edit{nameEnd, nameEnd, "; import verifhook \"" + hookPath + "\""})
			sort.Slice(edits, func(i, j int) bool {
				if edits[i].start != edits[j].start {
					return edits[i].start < edits[j].start
				}
				return edits[i].end < edits[j].end
			})
			var out []byte
			cur := 0
			for _, e := range edits {
				if e.start < cur {
					fail(fmt.Errorf("%s: overlapping edits at offset %d", names[af], e.start))
				}
				out = append(out, src[cur:e.start]...)
				out = append(out, e.text...)
				cur = e.end
			}
			out = append(out, src[cur:]...)
			// the rewritten file must parse
			if _, err := parser.ParseFile(token.NewFileSet(), names[af], out, 0); err != nil {
				fail(fmt.Errorf("rewritten %s does not parse: %v", names[af], err))
			}
			rel, _ := filepath.Rel(repo, names[af])
			dst := filepath.Join(outDir, "src", rel)
			os.MkdirAll(filepath.Dir(dst), 0o755)
			if err := os.WriteFile(dst, out, 0o644); err != nil {
				fail(err)
			}
			replace[names[af]] = dst
		}
	}
	stats["yield_points_at_package_variables"] = totalYields
	stats["sync_imports_rewritten"] = syncRewrites
	stats["map_ranges_rewritten"] = totalRanges
	stats["step_points"] = totalEnters
	stats["ranges_over_type_params_left_alone"] = skippedTP
	stats["packages"] = len(pkgs)
	b, _ := json.MarshalIndent(map[string]any{"Replace": replace}, "", " ")
	os.WriteFile(filepath.Join(outDir, "overlay.json"), b, 0o644)
	sb, _ := json.MarshalIndent(stats, "", " ")
	os.WriteFile(filepath.Join(outDir, "stats.json"), sb, 0o644)
	os.WriteFile(filepath.Join(outDir, "hash"), []byte(sum), 0o644)
	fmt.Printf("overlay written: %s\n", sb)
}

func identName(e ast.Expr) string {
	if id, ok := e.(*ast.Ident); ok {
		return id.Name
	}
	return ""
}

func isBlankOrNil(e ast.Expr) bool { return e == nil }

func fail(err error) {
	fmt.Fprintln(os.Stderr, "mkoverlay:", err)
	os.Exit(1)
}

type pkg struct {
	dir, importPath string
	files           []string
}

func findPackages() []pkg {
	var out []pkg
	ctx := build.Default
	ctx.BuildTags = []string{"verif"}
	filepath.Walk(repo, func(path string, info os.FileInfo, err error) error {
		if err != nil || !info.IsDir() {
			return nil
		}
		base := filepath.Base(path)
		if base == ".git" || base == "testdata" || base == "cmd" || base == ".github" || base == "verifhook" {
			return filepath.SkipDir
		}
		bp, err := ctx.ImportDir(path, 0)
		if err != nil || len(bp.GoFiles) == 0 {
			return nil
		}
		rel, _ := filepath.Rel(repo, path)
		ip := modPath
		if rel != "." {
			ip = modPath + "/" + filepath.ToSlash(rel)
		}
		files := append([]string{}, bp.GoFiles...)
		sort.Strings(files)
		out = append(out, pkg{path, ip, files})
		return nil
	})
	return out
}
