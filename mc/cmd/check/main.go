package main

import (
	"os"

	_ "verifmc/checks"
	"verifmc/core"
)

func main() { os.Exit(core.Main(os.Args[1:])) }
