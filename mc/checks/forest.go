package checks

import (
	"errors"
	"encoding/json"
	"fmt"
	"net/url"
	"path"
	"path/filepath"
	"strings"

	"github.com/getkin/kin-openapi/openapi3"

	"verifmc/explore"
	"verifmc/ref"
)

// A Forest is an in-memory multi-file document: the alphabet of C02, C11, C16 and (as base) C20.
type Forest struct {
	Kind, Shape, Layout, Spelling, Entry string
	Pos                                  Position
	RootLoc                              string
	Files                                ref.Files // parsed JSON per location, root included
	Expect                               string    // "ok", "dangling", "wrongkind", "loop"
	External                             bool      // the forest needs reads beyond the root
}

func (f *Forest) Describe() map[string]any {
	locs := sortedKeys(map[string]any(f.Files))
	return map[string]any{"kind": f.Kind, "shape": f.Shape, "layout": f.Layout, "spelling": f.Spelling, "entry": f.Entry,
		"position": f.Pos.String(), "root": f.RootLoc, "files": locs, "expect": f.Expect, "planted": f.planted()}
}

func (f *Forest) planted() any {
	root := f.Files[f.RootLoc]
	n, _ := GetAt(root, f.Pos.Ptr)
	return n
}

func (f *Forest) Signature() string {
	return fmt.Sprintf("kind=%s shape=%s layout=%s spelling=%s entry=%s pos=%s", f.Kind, f.Shape, f.Layout, f.Spelling, f.Entry, f.Pos.String())
}

// ---- target objects (normal form, valid) ----

func targetObject(kind string, leafRef string) map[string]any {
	leaf := func() any {
		if leafRef == "" {
			return map[string]any{"type": "string"}
		}
		return map[string]any{"$ref": leafRef}
	}
	switch kind {
	case "schema":
		return map[string]any{"type": "object", "description": "TARGET", "properties": map[string]any{"v": leaf()}}
	case "parameter":
		return map[string]any{"name": "tp", "in": "query", "description": "TARGET", "schema": leaf()}
	case "header":
		return map[string]any{"description": "TARGET", "schema": leaf()}
	case "requestBody":
		return map[string]any{"description": "TARGET", "content": map[string]any{"application/json": map[string]any{"schema": leaf()}}}
	case "response":
		return map[string]any{"description": "TARGET", "content": map[string]any{"application/json": map[string]any{"schema": leaf()}}}
	case "example":
		return map[string]any{"summary": "TARGET", "value": map[string]any{"k": "v"}}
	case "link":
		return map[string]any{"operationId": "getItem", "description": "TARGET"}
	case "securityScheme":
		return map[string]any{"type": "http", "scheme": "basic", "description": "TARGET"}
	case "callback":
		return map[string]any{"{$request.body#/u}": map[string]any{"post": map[string]any{"responses": map[string]any{"200": map[string]any{"description": "TARGET",
			"content": map[string]any{"application/json": map[string]any{"schema": leaf()}}}}}}}
	case "pathItem":
		return map[string]any{"description": "TARGET", "get": map[string]any{"responses": map[string]any{"200": map[string]any{"description": "ok",
			"content": map[string]any{"application/json": map[string]any{"schema": leaf()}}}}}}
	}
	panic("kind " + kind)
}

// markTarget rewrites the TARGET marker of a target object.
func markTarget(kind string, t map[string]any, mark string) {
	switch kind {
	case "example":
		t["summary"] = mark
	case "callback":
		t["{$request.body#/u}"].(map[string]any)["post"].(map[string]any)["responses"].(map[string]any)["200"].(map[string]any)["description"] = mark
	default:
		t["description"] = mark
	}
}

func kindHasNestedSchema(kind string) bool {
	switch kind {
	case "example", "link", "securityScheme":
		return false
	}
	return true
}

// componentsDoc builds a minimal document holding named objects: sec -> name -> object.
func componentsDoc(entries map[string]map[string]any) map[string]any {
	comps := map[string]any{}
	for sec, m := range entries {
		s := map[string]any{}
		for k, v := range m {
			s[k] = v
		}
		comps[sec] = s
	}
	return map[string]any{"openapi": "3.0.3", "info": map[string]any{"title": "f", "version": "1"}, "paths": map[string]any{}, "components": comps}
}

func addComponent(doc map[string]any, sec, name string, obj any) {
	comps, _ := doc["components"].(map[string]any)
	if comps == nil {
		comps = map[string]any{}
		doc["components"] = comps
	}
	s, _ := comps[sec].(map[string]any)
	if s == nil {
		s = map[string]any{}
		comps[sec] = s
	}
	s[name] = obj
}

// relRef spells the path from the file at `from` to the file at `to`.
func relRef(from, to, spelling string) string {
	if spelling == "absolute" {
		return to
	}
	rel, err := filepath.Rel(path.Dir(from), to)
	if err != nil {
		panic(err)
	}
	rel = filepath.ToSlash(rel)
	switch spelling {
	case "dot":
		if !strings.HasPrefix(rel, "../") {
			return "./" + rel
		}
		return rel
	case "detour":
		return "zz/../" + rel
	}
	return rel
}

var forestLayouts = []string{"flat", "nested", "deep"}
var forestSpellings = []string{"plain", "dot", "detour", "absolute"}
var forestEntries = []string{"DataWithPath", "File", "URI", "HTTP"}

func layoutLocs(layout string) (root, f1, f2 string) {
	switch layout {
	case "nested":
		return "/w/api/root.json", "/w/api/sub/f1.json", "/w/sib/f2.json"
	case "deep":
		return "/w/root.json", "/w/a/b/f1.json", "/w/a/f2.json"
	}
	return "/w/root.json", "/w/f1.json", "/w/f2.json"
}

// shapes per kind. A shape marked ext needs files beyond the root.
type shapeDef struct {
	name       string
	ext        bool
	schemaOnly bool
	nested     bool // needs a kind with a nested schema
}

var forestShapes = []shapeDef{
	{name: "internal"},
	{name: "whole-file", ext: true},
	{name: "file-fragment", ext: true},
	{name: "alias-internal"},
	{name: "chain-file-file", ext: true},
	{name: "file-back-to-root", ext: true},
	{name: "nested-ref-in-whole-file", ext: true, nested: true},
	{name: "nested-ref-in-fragment", ext: true, nested: true},
	{name: "diamond", ext: true, nested: true},
	{name: "self-cycle", schemaOnly: true},
	{name: "self-cycle-in-file", ext: true, schemaOnly: true},
	{name: "mutual-cycle-two-files", ext: true, schemaOnly: true},
	{name: "same-name-in-two-files", ext: true, schemaOnly: true},
	{name: "file-local-nested-ref", ext: true, nested: true},
	{name: "file-local-ref-under-inline-items", ext: true, schemaOnly: true},
	{name: "two-files-same-component-name", ext: true},
	{name: "same-file-two-spellings", ext: true},
	{name: "same-path-tail-under-two-ancestors", ext: true, schemaOnly: true}, // the name resolver is the same for every kind
	{name: "fragment-of-whole-file-component", ext: true, nested: true},
	{name: "fragment-of-whole-file-component-from-an-external-component", ext: true, nested: true},
	{name: "escaped-key:tilde-one", schemaOnly: true},
	{name: "escaped-key:slash", schemaOnly: true},
	{name: "escaped-key:tilde", schemaOnly: true},
	{name: "escaped-key:tilde-zero", schemaOnly: true},
	{name: "deep-pointer:additionalProperties/properties/id", schemaOnly: true},
	{name: "deep-pointer:properties/p/items/properties/x", schemaOnly: true},
	{name: "deep-pointer:allOf/1/properties/y", schemaOnly: true},
	{name: "deep-pointer:additionalProperties/properties/missing", schemaOnly: true},
	{name: "non-components-fragment"},
	{name: "pure-ref-loop"},
	{name: "dangling-internal"},
	{name: "dangling-file", ext: true},
	{name: "dangling-fragment-in-file", ext: true},
	{name: "wrong-kind-internal"},
	{name: "wrong-kind-in-file", ext: true},
}

// fragmentPointer is the JSON pointer of an internal reference, percent-decoded.
func fragmentPointer(refStr string) string {
	p := strings.TrimPrefix(refStr, "#")
	if u, err := url.PathUnescape(p); err == nil {
		p = u
	}
	return p
}

// where the nested schema of targetObject(kind) sits
var nestedSchemaPointer = map[string]string{
	"schema": "/properties/v", "parameter": "/schema", "header": "/schema",
	"requestBody": "/content/application~1json/schema", "response": "/content/application~1json/schema",
}

func shapesFor(kind string) []shapeDef {
	var out []shapeDef
	for _, s := range forestShapes {
		if s.schemaOnly && kind != "schema" {
			continue
		}
		if s.nested && !kindHasNestedSchema(kind) {
			continue
		}
		if s.name == "non-components-fragment" && kind != "schema" && kind != "response" && kind != "parameter" {
			continue
		}
		if strings.HasPrefix(s.name, "fragment-of-whole-file-component") && nestedSchemaPointer[kind] == "" {
			continue
		}
		out = append(out, s)
	}
	return out
}

var skeletonPositions map[string][]Position

func positionsOfKind(kind string) []Position {
	if skeletonPositions == nil {
		skeletonPositions = map[string][]Position{}
		for _, p := range Positions(Skeleton()) {
			// the alias components and the recursive schema stay as they are: planting over them changes other positions
			skeletonPositions[p.Kind] = append(skeletonPositions[p.Kind], p)
		}
	}
	return skeletonPositions[kind]
}

// a different kind, for wrong-kind references
var otherKind = map[string]string{
	"schema": "response", "parameter": "header", "header": "parameter", "requestBody": "response", "response": "schema",
	"example": "schema", "link": "example", "callback": "response", "securityScheme": "schema", "pathItem": "schema",
}

// GenForest enumerates forests: kind x position x shape x layout x spelling x entry point.
// full=false restricts positions to one per distinct host chain for the non-default layouts/spellings.
func GenForest(x *explore.X, thorough bool) *Forest {
	kind := explore.Pick(x, RefKinds)
	shapes := shapesFor(kind)
	shape := explore.Pick(x, shapes)
	positions := positionsOfKind(kind)
	entries := forestEntries
	if !shape.ext {
		entries = []string{"DataWithPath", "File", "URI", "HTTP", "Data"}
	}
	if !thorough {
		// quick tier: every position under the default placement, plus the full placement product at two representative positions
		if x.Choose(2) == 0 {
			pos := explore.Pick(x, positions)
			return &Forest{Kind: kind, Shape: shape.name, Pos: pos, Layout: "flat", Spelling: "plain", Entry: "DataWithPath"}
		}
		reps := positions
		if len(reps) > 2 {
			reps = []Position{positions[0], positions[len(positions)-1]}
		}
		pos := explore.Pick(x, reps)
		layout, spelling := "flat", "plain"
		if shape.ext {
			layout = explore.Pick(x, forestLayouts)
			spelling = explore.Pick(x, forestSpellings)
		}
		entry := explore.Pick(x, entries)
		return &Forest{Kind: kind, Shape: shape.name, Pos: pos, Layout: layout, Spelling: spelling, Entry: entry}
	}
	pos := explore.Pick(x, positions)
	layout, spelling := "flat", "plain"
	if shape.ext {
		layout = explore.Pick(x, forestLayouts)
		spelling = explore.Pick(x, forestSpellings)
	}
	entry := explore.Pick(x, entries)
	return &Forest{Kind: kind, Shape: shape.name, Pos: pos, Layout: layout, Spelling: spelling, Entry: entry}
}

// Build materialises the files of a forest whose coordinates were chosen by GenForest (kept
// separate so that workers skip the construction for cases of other shards).
func (f *Forest) Build() *Forest {
	return BuildForest(f.Kind, f.Shape, f.Pos, f.Layout, f.Spelling, f.Entry)
}

// BuildForest constructs the forest for the given coordinates.
func BuildForest(kind, shape string, pos Position, layout, spelling, entry string) *Forest {
	rootLoc, f1Loc, f2Loc := layoutLocs(layout)
	root := Skeleton()
	sec := SectionOf[kind]
	f := &Forest{Kind: kind, Shape: shape, Layout: layout, Spelling: spelling, Entry: entry, Pos: pos, RootLoc: rootLoc, Files: ref.Files{}, Expect: "ok"}
	files := map[string]map[string]any{}
	r1 := relRef(rootLoc, f1Loc, spelling) // root -> f1
	r12 := relRef(f1Loc, f2Loc, "plain")   // f1 -> f2
	r21 := relRef(f2Loc, f1Loc, "plain")   // f2 -> f1
	r1root := relRef(f1Loc, rootLoc, "plain")
	frag := func(s, n string) string { return "#/components/" + s + "/" + n }
	var planted string
	switch shape {
	case "internal":
		addComponent(root, sec, "Tgt", targetObject(kind, ""))
		planted = frag(sec, "Tgt")
	case "whole-file":
		files[f1Loc] = targetObject(kind, "")
		planted = r1
	case "file-fragment":
		files[f1Loc] = componentsDoc(map[string]map[string]any{sec: {"Tgt": targetObject(kind, "")}})
		planted = r1 + frag(sec, "Tgt")
	case "alias-internal":
		addComponent(root, sec, "Tgt", targetObject(kind, ""))
		addComponent(root, sec, "Mid", map[string]any{"$ref": frag(sec, "Tgt")})
		planted = frag(sec, "Mid")
	case "chain-file-file":
		files[f1Loc] = componentsDoc(map[string]map[string]any{sec: {"Mid": map[string]any{"$ref": r12 + frag(sec, "Tgt")}}})
		files[f2Loc] = componentsDoc(map[string]map[string]any{sec: {"Tgt": targetObject(kind, "")}})
		planted = r1 + frag(sec, "Mid")
	case "file-back-to-root":
		addComponent(root, sec, "Tgt", targetObject(kind, ""))
		files[f1Loc] = componentsDoc(map[string]map[string]any{sec: {"Mid": map[string]any{"$ref": r1root + frag(sec, "Tgt")}}})
		planted = r1 + frag(sec, "Mid")
	case "nested-ref-in-whole-file":
		files[f1Loc] = targetObject(kind, r12+frag("schemas", "Leaf"))
		files[f2Loc] = componentsDoc(map[string]map[string]any{"schemas": {"Leaf": map[string]any{"type": "string", "description": "LEAF"}}})
		planted = r1
	case "nested-ref-in-fragment":
		files[f1Loc] = componentsDoc(map[string]map[string]any{sec: {"Tgt": targetObject(kind, r12+frag("schemas", "Leaf"))}})
		files[f2Loc] = componentsDoc(map[string]map[string]any{"schemas": {"Leaf": map[string]any{"type": "string", "description": "LEAF"}}})
		planted = r1 + frag(sec, "Tgt")
	case "diamond":
		// two routes to the leaf: through f1's target and directly from a root component
		files[f1Loc] = componentsDoc(map[string]map[string]any{sec: {"Tgt": targetObject(kind, r12+frag("schemas", "Leaf"))}})
		files[f2Loc] = componentsDoc(map[string]map[string]any{"schemas": {"Leaf": map[string]any{"type": "string", "description": "LEAF"}}})
		addComponent(root, "schemas", "Direct", map[string]any{"$ref": relRef(rootLoc, f2Loc, "plain") + frag("schemas", "Leaf")})
		addComponent(root, sec, "Second", map[string]any{"$ref": relRef(rootLoc, f1Loc, "plain") + frag(sec, "Tgt")})
		planted = r1 + frag(sec, "Tgt")
	case "self-cycle":
		t := targetObject(kind, "")
		t["properties"].(map[string]any)["next"] = map[string]any{"$ref": frag(sec, "Tgt")}
		addComponent(root, sec, "Tgt", t)
		planted = frag(sec, "Tgt")
	case "self-cycle-in-file":
		t := targetObject(kind, "")
		t["properties"].(map[string]any)["next"] = map[string]any{"$ref": frag(sec, "Tgt")}
		files[f1Loc] = componentsDoc(map[string]map[string]any{sec: {"Tgt": t}})
		planted = r1 + frag(sec, "Tgt")
	case "mutual-cycle-two-files":
		a := map[string]any{"type": "object", "description": "A", "properties": map[string]any{"b": map[string]any{"$ref": r12 + frag(sec, "B")}}}
		b := map[string]any{"type": "object", "description": "B", "properties": map[string]any{"a": map[string]any{"$ref": r21 + frag(sec, "A")}}}
		files[f1Loc] = componentsDoc(map[string]map[string]any{sec: {"A": a}})
		files[f2Loc] = componentsDoc(map[string]map[string]any{sec: {"B": b}})
		planted = r1 + frag(sec, "A")
	case "same-name-in-two-files":
		// root's Tgt (being resolved) reaches f1's Other, which refers to f1's own Tgt: a different object with the same local name
		rootT := map[string]any{"type": "object", "description": "ROOT-TGT", "properties": map[string]any{"x": map[string]any{"$ref": r1 + frag(sec, "Other")}}}
		addComponent(root, sec, "Tgt", rootT)
		other := map[string]any{"type": "object", "description": "OTHER", "properties": map[string]any{"y": map[string]any{"$ref": frag(sec, "Tgt")}}}
		files[f1Loc] = componentsDoc(map[string]map[string]any{sec: {"Other": other, "Tgt": map[string]any{"type": "string", "description": "F1-TGT"}}})
		planted = frag(sec, "Tgt")
	case "file-local-nested-ref":
		// the target's nested reference is local to its own file; the root has a different schema under the same name
		d := componentsDoc(map[string]map[string]any{sec: {"Tgt": targetObject(kind, frag("schemas", "Local"))}})
		addComponent(d, "schemas", "Local", map[string]any{"type": "string", "description": "LOCAL-OF-F1"})
		files[f1Loc] = d
		addComponent(root, "schemas", "Local", map[string]any{"type": "integer", "description": "LOCAL-OF-ROOT"})
		planted = r1 + frag(sec, "Tgt")
	case "file-local-ref-under-inline-items":
		t := map[string]any{"type": "array", "description": "TARGET", "items": map[string]any{"type": "object", "properties": map[string]any{"p": map[string]any{"$ref": frag("schemas", "Local")}},
			"additionalProperties": map[string]any{"not": map[string]any{"$ref": frag("schemas", "Local2")}}}}
		d := componentsDoc(map[string]map[string]any{sec: {"Tgt": t, "Local": map[string]any{"type": "string", "description": "LOCAL-OF-F1"}, "Local2": map[string]any{"type": "boolean", "description": "LOCAL2-OF-F1"}}})
		files[f1Loc] = d
		addComponent(root, "schemas", "Local", map[string]any{"type": "integer", "description": "LOCAL-OF-ROOT"})
		planted = r1 + frag(sec, "Tgt")
	case "two-files-same-component-name":
		t1 := targetObject(kind, "")
		t2 := targetObject(kind, "")
		markTarget(kind, t1, "TARGET-IN-F1")
		markTarget(kind, t2, "TARGET-IN-F2")
		files[f1Loc] = componentsDoc(map[string]map[string]any{sec: {"Tgt": t1}})
		files[f2Loc] = componentsDoc(map[string]map[string]any{sec: {"Tgt": t2}})
		addComponent(root, sec, "Second", map[string]any{"$ref": relRef(rootLoc, f2Loc, "plain") + frag(sec, "Tgt")})
		planted = r1 + frag(sec, "Tgt")
	case "same-path-tail-under-two-ancestors":
		// two different files whose paths end alike (common/x.json) below the root's directory and below its parent,
		// both defining a component of the same name: two distinct targets
		dir := path.Dir(rootLoc)
		g1, g2 := path.Join(dir, "common/x.json"), path.Join(path.Dir(dir), "common/x.json")
		t1 := targetObject(kind, "")
		t2 := targetObject(kind, "")
		markTarget(kind, t1, "TARGET-BELOW-THE-ROOT-DIRECTORY")
		markTarget(kind, t2, "TARGET-BELOW-ITS-PARENT")
		files[g1] = componentsDoc(map[string]map[string]any{sec: {"Tgt": t1}})
		files[g2] = componentsDoc(map[string]map[string]any{sec: {"Tgt": t2}})
		addComponent(root, sec, "Second", map[string]any{"$ref": relRef(rootLoc, g2, "plain") + frag(sec, "Tgt")})
		planted = relRef(rootLoc, g1, spelling) + frag(sec, "Tgt")
	case "same-file-two-spellings":
		files[f1Loc] = componentsDoc(map[string]map[string]any{sec: {"Tgt": targetObject(kind, "")}})
		addComponent(root, sec, "Second", map[string]any{"$ref": relRef(rootLoc, f1Loc, "detour") + frag(sec, "Tgt")})
		planted = r1 + frag(sec, "Tgt")
	case "fragment-of-whole-file-component":
		// a root component that is a reference to a whole file, and (in a component that sorts before it) a reference to a fragment of that file
		files[f1Loc] = targetObject(kind, "")
		addComponent(root, sec, "Zed", map[string]any{"$ref": relRef(rootLoc, f1Loc, "plain")})
		addComponent(root, "schemas", "Aaa", map[string]any{"type": "object", "description": "AAA", "properties": map[string]any{
			"inner": map[string]any{"$ref": relRef(rootLoc, f1Loc, "plain") + "#" + nestedSchemaPointer[kind]}}})
		planted = r1
	case "fragment-of-whole-file-component-from-an-external-component":
		// as above, but the reference to the fragment sits in a second file, which the root takes in as a whole-file component
		// that sorts before the whole-file component of the first file
		files[f1Loc] = targetObject(kind, "")
		files[f2Loc] = map[string]any{"type": "object", "description": "ENVELOPE-IN-F2", "properties": map[string]any{
			"inner": map[string]any{"$ref": r21 + "#" + nestedSchemaPointer[kind]}}}
		addComponent(root, sec, "Zed", map[string]any{"$ref": relRef(rootLoc, f1Loc, "plain")})
		addComponent(root, "schemas", "Aaa", map[string]any{"$ref": relRef(rootLoc, f2Loc, "plain")})
		planted = r1
	case "escaped-key:tilde-one", "escaped-key:slash", "escaped-key:tilde", "escaped-key:tilde-zero":
		// property names that need JSON-pointer escaping (RFC 6901: "~1" is "/", "~0" is "~", decoded in that order),
		// all four present side by side so that a wrong decoding lands on a neighbour
		props := map[string]any{}
		for _, k := range []string{"a~1b", "a/b", "a~b", "a~0b"} {
			props[k] = map[string]any{"type": "string", "description": "PROPERTY " + k}
		}
		addComponent(root, sec, "Holder", map[string]any{"type": "object", "properties": props})
		key := map[string]string{"escaped-key:tilde-one": "a~1b", "escaped-key:slash": "a/b", "escaped-key:tilde": "a~b", "escaped-key:tilde-zero": "a~0b"}[shape]
		tok := strings.ReplaceAll(strings.ReplaceAll(key, "~", "~0"), "/", "~1")
		planted = frag(sec, "Holder") + "/properties/" + tok
	case "deep-pointer:additionalProperties/properties/id", "deep-pointer:properties/p/items/properties/x", "deep-pointer:allOf/1/properties/y", "deep-pointer:additionalProperties/properties/missing":
		// pointers of three and more segments below a component, through every way a schema holds another one
		addComponent(root, sec, "Holder", map[string]any{"type": "object", "description": "HOLDER",
			"additionalProperties": map[string]any{"type": "object", "description": "HOLDER-AP", "properties": map[string]any{"id": map[string]any{"type": "string", "description": "TARGET additionalProperties/properties/id"}}},
			"properties": map[string]any{"p": map[string]any{"type": "array", "description": "HOLDER-P", "items": map[string]any{"type": "object", "properties": map[string]any{"x": map[string]any{"type": "integer", "description": "TARGET properties/p/items/properties/x"}}}}},
			"allOf": []any{map[string]any{"type": "object"}, map[string]any{"properties": map[string]any{"y": map[string]any{"type": "boolean", "description": "TARGET allOf/1/properties/y"}}}}})
		planted = frag(sec, "Holder") + "/" + strings.TrimPrefix(shape, "deep-pointer:")
		if strings.HasSuffix(shape, "/missing") {
			f.Expect = "dangling"
		}
	case "non-components-fragment":
		switch kind {
		case "schema":
			planted = "#/components/responses/NotFound/content/application~1json/schema"
		case "response":
			planted = "#/paths/~1health/get/responses/200"
		case "parameter":
			planted = "#/paths/~1items~1%7Bid%7D/get/parameters/2"
		}
	case "pure-ref-loop":
		addComponent(root, sec, "L1", map[string]any{"$ref": frag(sec, "L2")})
		addComponent(root, sec, "L2", map[string]any{"$ref": frag(sec, "L1")})
		planted = frag(sec, "L1")
		f.Expect = "loop"
	case "dangling-internal":
		planted = frag(sec, "Missing")
		f.Expect = "dangling"
	case "dangling-file":
		planted = r1
		f.Expect = "dangling"
	case "dangling-fragment-in-file":
		files[f1Loc] = componentsDoc(map[string]map[string]any{sec: {"Present": targetObject(kind, "")}})
		planted = r1 + frag(sec, "Missing")
		f.Expect = "dangling"
	case "wrong-kind-internal":
		ok := otherKind[kind]
		addComponent(root, SectionOf[ok], "Wrong", targetObject(ok, ""))
		planted = frag(SectionOf[ok], "Wrong")
		f.Expect = "wrongkind"
	case "wrong-kind-in-file":
		ok := otherKind[kind]
		files[f1Loc] = componentsDoc(map[string]map[string]any{SectionOf[ok]: {"Wrong": targetObject(ok, "")}})
		planted = r1 + frag(SectionOf[ok], "Wrong")
		f.Expect = "wrongkind"
	default:
		panic("shape " + shape)
	}
	if !SetAt(root, pos.Ptr, map[string]any{"$ref": planted}) {
		panic("cannot plant at " + pos.String())
	}
	if shape == "non-components-fragment" {
		// planted at (or on the way to) its own target, the reference is a loop of references: the reference resolver decides
		if _, err := ref.Resolve(ref.Files{rootLoc: root}, rootLoc, planted); errors.Is(err, ref.ErrLoop) {
			f.Expect = "loop"
		}
	}
	files[rootLoc] = root
	for loc, d := range files {
		if loc != rootLoc {
			f.External = true
		}
		// normalise through JSON so that every file is plain decoded JSON
		b, _ := json.Marshal(d)
		var v any
		json.Unmarshal(b, &v)
		f.Files[loc] = v
	}
	if entry == "HTTP" {
		nf := ref.Files{}
		for loc, d := range f.Files {
			nf["http://h.example"+loc] = d
		}
		f.Files = nf
		f.RootLoc = "http://h.example" + rootLoc
	}
	if entry == "Data" {
		nf := ref.Files{"": f.Files[rootLoc]}
		f.Files = nf
		f.RootLoc = ""
	}
	return f
}

// ---- driving the loader over a forest ----

// LoadResult is what one load observed.
type LoadResult struct {
	Doc   *openapi3.T
	Err   error
	Reads []string // every URL handed to ReadFromURIFunc, in order
}

// readerKey maps a URL the loader asks for to a forest location (filesystem semantics: paths are cleaned).
func readerKey(u *url.URL) string {
	if u.Scheme == "" && u.Host == "" {
		return path.Clean(u.Path)
	}
	c := *u
	if c.Path != "" {
		c.Path = path.Clean(c.Path)
	}
	c.Fragment = ""
	return c.String()
}

// LoadForest loads the forest through its entry point with an in-memory reader.
func LoadForest(f *Forest, allowExternal bool, answer func(u *url.URL, found bool) int) LoadResult {
	return LoadForestAfter(f, allowExternal, answer, 0)
}

// brokenRoot is the forest's root document with the planted reference's internal target components removed.
func brokenRoot(f *Forest) any {
	root := cloneJSON(f.Files[f.RootLoc])
	if comps, ok := root.(map[string]any)["components"].(map[string]any); ok {
		for _, sec := range comps {
			if m, ok := sec.(map[string]any); ok {
				for _, n := range []string{"Tgt", "Mid", "Second", "Direct"} {
					delete(m, n)
				}
			}
		}
	}
	return root
}

// LoadForestAfter loads the forest with a Loader that has a history:
// 0 a fresh loader; 1 the loader first loaded (through the same entry point, from a sibling location) a broken
// edition of the same document: internal targets removed, no other file readable, which fails wherever the planted
// reference needs one of them; 2 the loader first loaded this very document from the same location.
func LoadForestAfter(f *Forest, allowExternal bool, answer func(u *url.URL, found bool) int, history int) LoadResult {
	var res LoadResult
	l := openapi3.NewLoader()
	l.IsExternalRefsAllowed = allowExternal
	preloading := false
	brokenLoc := ""
	var brokenBytes []byte
	l.ReadFromURIFunc = func(_ *openapi3.Loader, u *url.URL) ([]byte, error) {
		if preloading && history == 1 {
			if readerKey(u) == brokenLoc {
				return brokenBytes, nil
			}
			return nil, fmt.Errorf("open %s: no such file", u)
		}
		res.Reads = append(res.Reads, u.String())
		d, ok := f.Files[readerKey(u)]
		mode := 0
		if answer != nil {
			mode = answer(u, ok)
		}
		switch mode {
		case 1:
			return nil, fmt.Errorf("injected read error for %s", u)
		case 2:
			return []byte("\x00garbage{"), nil
		}
		if !ok {
			return nil, fmt.Errorf("open %s: no such file", u)
		}
		return json.Marshal(d)
	}
	load := func(rootBytes []byte, loc string) (*openapi3.T, error) {
		switch f.Entry {
		case "Data":
			return l.LoadFromData(rootBytes)
		case "DataWithPath":
			return l.LoadFromDataWithPath(rootBytes, &url.URL{Path: loc})
		case "File":
			return l.LoadFromFile(loc)
		case "URI":
			return l.LoadFromURI(&url.URL{Path: loc})
		case "HTTP":
			u, _ := url.Parse(loc)
			return l.LoadFromURI(u)
		}
		panic("entry " + f.Entry)
	}
	rootBytes, _ := json.Marshal(f.Files[f.RootLoc])
	switch history {
	case 1:
		preloading = true
		brokenBytes, _ = json.Marshal(brokenRoot(f))
		brokenLoc = f.RootLoc
		if i := strings.LastIndex(brokenLoc, "/"); i >= 0 {
			brokenLoc = brokenLoc[:i+1] + "broken-edition.json"
		}
		load(brokenBytes, brokenLoc)
		preloading = false
	case 2:
		preloading = true
		load(rootBytes, f.RootLoc)
		preloading = false
		res.Reads = nil
	}
	res.Doc, res.Err = load(rootBytes, f.RootLoc)
	return res
}
