package checks

import (
	"context"
	"encoding/json"
	"fmt"
	"strconv"

	"github.com/getkin/kin-openapi/openapi3"

	"verifmc/core"
	"verifmc/explore"
	"verifmc/ref"
)

var c12Alphabet = DefaultAlphabetWith(
	[][]kwOpt{{{"format", "date"}, {"format", "date-time"}, {"format", "byte"}, {"format", "int32"}, {"format", "nosuchformat"}}},
	[]kwOpt{{"pattern", "["}, {"required", []any{"a", "a"}}, {"required", []any{"a", "b", "a"}}},
).withAppls([]applForm{{"properties", "propA-ro"}, {"properties", "propA-wo"}, {"properties", "propAB-ro"}, {"properties", "propEsc"}})

var c12Combined = []any{
	m("uniqueItems", true, "items", m("minLength", 2.0)),
	m("uniqueItems", true, "items", m("type", "integer"), "maxItems", 2.0),
	m("uniqueItems", true, "minItems", 4.0, "items", m("enum", l("ab", 1.0))),
	m("required", l("a", "b"), "properties", m("a", m("minLength", 2.0), "b", m("type", "integer")), "additionalProperties", false),
	m("minProperties", 3.0, "additionalProperties", m("type", "string", "maxLength", 1.0)),
}

// compositions below a collection keyword: container x {allOf, anyOf, oneOf} x one or two members x leaf.
// An error of the member reaches the container wrapped by the composition keyword's own error, and in multi-error
// mode the container merges what its children return - three keyword instances at least, beyond the quick budget.
func init() {
	leaves := []any{m("minimum", 2.0), m("minLength", 2.0)}
	second := []any{m("type", "number"), m("type", "string")}
	for _, kw := range []string{"allOf", "anyOf", "oneOf"} {
		for li, leaf := range leaves {
			for _, members := range [][]any{{leaf}, {leaf, second[li]}, {second[li], leaf}} {
				comp := m(kw, l(members...))
				c12Combined = append(c12Combined,
					m("items", cloneJSON(comp)),
					m("properties", m("a", cloneJSON(comp))),
					m("additionalProperties", cloneJSON(comp)),
					m("items", m("items", cloneJSON(comp))),
					m("properties", m("a", m("items", cloneJSON(comp)))))
			}
		}
	}
}

func c12Values(size int) []any {
	vs := ValueSet(size)
	vs = append(vs, "2020-01-02", "2020-13-02", "2020-01-02T03:04:05Z", "!!", 4294967296.0, -4294967296.0,
		map[string]any{"a": "2020-01-02"}, []any{"2020-13-02"}, []any{4294967296.0, "a"})
	// three items, a duplicate pair ahead of a distinct one (positions after a removed duplicate must still be right)
	vs = append(vs, []any{"ab", "ab", "a"}, []any{1.0, 1.0, 1.5}, []any{"a", "ab", "ab", ""}, []any{[]any{1.0}, []any{1.0}, 1.0})
	// a property whose name needs escaping in a JSON pointer (RFC 6901: "/" is "~1", "~" is "~0")
	for _, v := range []any{nil, true, 1.0, 1.5, "a", "ab"} {
		vs = append(vs, map[string]any{"s/l~t": v})
	}
	return vs
}

// discriminator fixtures
const c12DiscDoc = `{"openapi":"3.0.3","info":{"title":"t","version":"1"},"paths":{},
"components":{"schemas":{
 "A":{"type":"object","required":["t"],"properties":{"t":{"type":"string"},"n":{"type":"integer"}}},
 "B":{"type":"object","required":["t"],"properties":{"t":{"type":"string"},"s":{"type":"string","minLength":2}}},
 "U":{"oneOf":[{"$ref":"#/components/schemas/A"},{"$ref":"#/components/schemas/B"}],"discriminator":{"propertyName":"t","mapping":{"a":"#/components/schemas/A","b":"#/components/schemas/B"}}},
 "V":{"oneOf":[{"$ref":"#/components/schemas/A"},{"$ref":"#/components/schemas/B"}],"discriminator":{"propertyName":"t"}},
 "HU":{"type":"object","properties":{"h":{"$ref":"#/components/schemas/U"}}},
 "LU":{"type":"array","items":{"$ref":"#/components/schemas/U"}},
 "HV":{"type":"object","properties":{"h":{"$ref":"#/components/schemas/V"}}},
 "AU":{"allOf":[{"$ref":"#/components/schemas/U"}]},
 "C":{"type":"object","required":["t"],"properties":{"t":{"type":"string"}}},
 "W":{"oneOf":[{"$ref":"#/components/schemas/A"},{"$ref":"#/components/schemas/B"}],"discriminator":{"propertyName":"t","mapping":{"a":"#/components/schemas/A","b":"#/components/schemas/B","c":"#/components/schemas/C"}}},
 "LW":{"type":"array","items":{"$ref":"#/components/schemas/W"}},
 "HW":{"type":"object","properties":{"h":{"$ref":"#/components/schemas/W"}}},
 "XW":{"type":"object","additionalProperties":{"$ref":"#/components/schemas/W"}}
}}}`

var c12DiscNames = []string{"U", "V", "HU", "LU", "HV", "AU", "W", "LW", "HW", "XW"}

func c12DiscValues() []any {
	base := []any{
		map[string]any{"t": "a", "n": 1.0}, map[string]any{"t": "a", "n": "x"}, map[string]any{"t": "b", "s": "xy"}, map[string]any{"t": "b", "s": "x"},
		map[string]any{"t": "c"}, map[string]any{"t": 1.0}, map[string]any{}, map[string]any{"n": 1.0}, "str", nil, map[string]any{"t": "a"}, map[string]any{"t": "a", "s": "x", "n": 1.5},
	}
	var out []any
	for _, b := range base {
		out = append(out, b, map[string]any{"h": b}, []any{b}, []any{map[string]any{"t": "a"}, b})
	}
	return out
}

type c12Mode struct {
	name string
	opts func(custom int) []openapi3.SchemaValidationOption
}

func c12Opts(ff, me bool, custom int) []openapi3.SchemaValidationOption {
	var o []openapi3.SchemaValidationOption
	if ff {
		o = append(o, openapi3.FailFast())
	}
	if me {
		o = append(o, openapi3.MultiErrors())
	}
	switch custom {
	case 1:
		o = append(o, openapi3.SetSchemaErrorMessageCustomizer(func(e *openapi3.SchemaError) string { return "custom: " + e.Reason }))
	case 2:
		o = append(o, openapi3.SetSchemaErrorMessageCustomizer(func(e *openapi3.SchemaError) string { return "" }))
	}
	return o
}

// flattenSchemaErrors returns the *SchemaError that are the error itself or members of (nested) MultiErrors.
func flattenSchemaErrors(err error) []*openapi3.SchemaError {
	switch e := err.(type) {
	case *openapi3.SchemaError:
		return []*openapi3.SchemaError{e}
	case openapi3.MultiError:
		var out []*openapi3.SchemaError
		for _, m := range e {
			out = append(out, flattenSchemaErrors(m)...)
		}
		return out
	}
	return nil
}

func resolvePointer(v any, toks []string) (any, bool) {
	cur := v
	for _, t := range toks {
		switch c := cur.(type) {
		case map[string]any:
			n, ok := c[t]
			if !ok {
				return nil, false
			}
			cur = n
		case []any:
			i, err := strconv.Atoi(t)
			if err != nil || i < 0 || i >= len(c) {
				return nil, false
			}
			cur = c[i]
		default:
			return nil, false
		}
	}
	return cur, true
}

type c12Finding struct {
	clause string
	detail map[string]any
}

// c12Judge runs every mode on (s,v) and returns the violated clauses.
func c12Judge(r *core.Run, s *openapi3.Schema, v any, order int) (out []c12Finding, baseVerdict string) {
	run := func(name string, f func() (bool, error)) (ok bool, err error, panicked bool) {
		defer func() {
			if p := recover(); p != nil {
				if _, isStep := p.(interface{ Error() string }); isStep && fmt.Sprint(p) != "" && len(fmt.Sprint(p)) > 9 && fmt.Sprint(p)[:9] == "verifhook" {
					out = append(out, c12Finding{"terminates:" + name, map[string]any{"mode": name}})
				} else {
					out = append(out, c12Finding{"no-panic:" + name, map[string]any{"mode": name, "panic": fmt.Sprint(p)}})
				}
				panicked = true
			}
		}()
		r.Exec(order)
		ok, err = f()
		return
	}
	base, baseErr, p := run("default", func() (bool, error) { e := s.VisitJSON(cloneJSON(v)); return e == nil, e })
	if p {
		return out, "panic"
	}
	baseVerdict = fmt.Sprint(base)
	checkPtr := func(mode string, err error) {
		for _, se := range flattenSchemaErrors(err) {
			ptr := se.JSONPointer()
			loc := ptr
			if se.SchemaField == "required" && len(ptr) > 0 {
				loc = ptr[:len(ptr)-1]
			}
			found, ok := resolvePointer(v, loc)
			if !ok {
				out = append(out, c12Finding{"pointer-resolves", map[string]any{"mode": mode, "pointer": ptr, "field": se.SchemaField}})
				continue
			}
			if se.Value == nil && se.Origin != nil && se.SchemaField == "pattern" {
				// the error reports a defect of the schema itself (uncompilable pattern) and quotes no value
				r.Count("schema_defect_errors_without_value", 1)
				continue
			}
			if !ref.Equal(normJSON(se.Value), found) {
				out = append(out, c12Finding{"value-at-pointer:" + se.SchemaField, map[string]any{"mode": mode, "pointer": ptr, "field": se.SchemaField, "quoted": CanonJSON(se.Value), "found": CanonJSON(found)}})
			}
		}
	}
	checkPtr("default", baseErr)
	for _, ff := range []bool{false, true} {
		for _, me := range []bool{false, true} {
			for custom := 0; custom < 3; custom++ {
				if !ff && !me && custom == 0 {
					continue
				}
				name := fmt.Sprintf("ff=%v,multi=%v,custom=%d", ff, me, custom)
				ok, err, p := run(name, func() (bool, error) { e := s.VisitJSON(cloneJSON(v), c12Opts(ff, me, custom)...); return e == nil, e })
				if p {
					continue
				}
				if ok != base {
					out = append(out, c12Finding{"verdict-differs:" + fmt.Sprintf("ff=%v,multi=%v", ff, me), map[string]any{"mode": name, "default_accepts": base, "mode_accepts": ok}})
				}
				if !ff {
					checkPtr(name, err)
				}
			}
		}
	}
	// the request and response readings: within each, the modes must agree with that reading's default mode
	type opts = []openapi3.SchemaValidationOption
	for _, rd := range []struct {
		name string
		opt  opts
	}{{"asRequest", opts{openapi3.VisitAsRequest()}}, {"asResponse", opts{openapi3.VisitAsResponse()}},
		// further readings (options that change what is checked): within each the report modes must agree as well
		{"formats", opts{openapi3.EnableFormatValidation()}}, {"noPatterns", opts{openapi3.DisablePatternValidation()}},
		{"asRequest-noReadOnly", opts{openapi3.VisitAsRequest(), openapi3.DisableReadOnlyValidation()}},
		{"asResponse-noWriteOnly", opts{openapi3.VisitAsResponse(), openapi3.DisableWriteOnlyValidation()}}} {
		rbase, rerr, p := run(rd.name, func() (bool, error) { e := s.VisitJSON(cloneJSON(v), rd.opt...); return e == nil, e })
		if p {
			continue
		}
		checkPtr(rd.name, rerr)
		for _, ff := range []bool{false, true} {
			for _, me := range []bool{false, true} {
				if !ff && !me {
					continue
				}
				name := fmt.Sprintf("%s,ff=%v,multi=%v", rd.name, ff, me)
				ok, err, p := run(name, func() (bool, error) {
					e := s.VisitJSON(cloneJSON(v), append(c12Opts(ff, me, 0), rd.opt...)...)
					return e == nil, e
				})
				if p {
					continue
				}
				if ok != rbase {
					out = append(out, c12Finding{"verdict-differs:" + name, map[string]any{"mode": name, rd.name + "_default_accepts": rbase, "mode_accepts": ok}})
				}
				if !ff {
					checkPtr(name, err)
				}
			}
		}
	}
	if ok, _, p := run("IsMatching", func() (bool, error) { return s.IsMatching(cloneJSON(v)), nil }); !p && ok != base {
		out = append(out, c12Finding{"verdict-differs:IsMatching", map[string]any{"default_accepts": base, "IsMatching": ok}})
	}
	typed := func(name string, f func() bool) {
		if ok, _, p := run(name, func() (bool, error) { return f(), nil }); !p && ok != base {
			out = append(out, c12Finding{"verdict-differs:" + name, map[string]any{"default_accepts": base, name: ok}})
		}
	}
	switch t := v.(type) {
	case bool:
		typed("IsMatchingJSONBoolean", func() bool { return s.IsMatchingJSONBoolean(t) })
	case float64:
		typed("IsMatchingJSONNumber", func() bool { return s.IsMatchingJSONNumber(t) })
	case string:
		typed("IsMatchingJSONString", func() bool { return s.IsMatchingJSONString(t) })
	case []any:
		typed("IsMatchingJSONArray", func() bool { return s.IsMatchingJSONArray(cloneJSON(t).([]any)) })
	case map[string]any:
		typed("IsMatchingJSONObject", func() bool { return s.IsMatchingJSONObject(cloneJSON(t).(map[string]any)) })
	}
	return out, baseVerdict
}

// normJSON maps Go values an error may quote ([]string, int64...) to decoded-JSON form.
func normJSON(v any) any {
	switch x := v.(type) {
	case json.Number:
		f, err := x.Float64()
		if err != nil {
			return x.String()
		}
		return f
	case int32:
		return float64(x)
	case uint64:
		return float64(x)
	case float32:
		return float64(x)
	case []string:
		out := make([]any, len(x))
		for i := range x {
			out[i] = x[i]
		}
		return out
	case int:
		return float64(x)
	case int64:
		return float64(x)
	case []any:
		out := make([]any, len(x))
		for i := range x {
			out[i] = normJSON(x[i])
		}
		return out
	case map[string]any:
		out := map[string]any{}
		for k, e := range x {
			out[k] = normJSON(e)
		}
		return out
	}
	return v
}

func c12Budget(tier string) (budget, depth, vsize int) {
	if tier == "thorough" {
		return 3, 2, 1
	}
	return 2, 2, 1
}

func init() {
	var discDoc *openapi3.T
	core.Register(&core.Check{
		ID: "C12",
		Rule: "family 0: every schema with <=B keyword instances of the C01 alphabet extended with format (date, date-time, byte, int32, unknown) and an uncompilable pattern, x the C01 value list plus format probes; " +
			"family 2: five fixed schemas in which two or three keywords report on the same array or object (uniqueItems + items + a length bound; required + properties + additionalProperties) and 90 generated ones that put a composition below a collection keyword ({items, properties.a, additionalProperties, items.items, properties.a.items} x {allOf, anyOf, oneOf} x members {[leaf], [leaf,type], [type,leaf]} x leaf {minimum, minLength}); family 1: ten discriminator schemas (oneOf of two component refs, without mapping, with a mapping, with a mapping that also names a component outside the alternatives; bare and nested under properties/items/additionalProperties/allOf) x 48 values. Each (schema,value) is run in default mode, " +
			"the 11 combinations of FailFast/MultiErrors/message customiser, IsMatching and the typed IsMatching helper, and within each of six further readings (request, response, formats enabled, patterns disabled, request without the readOnly check, response without the writeOnly check) the FailFast/MultiErrors combinations against that reading's own default; non-trivial = the default verdict is reject (an error exists whose pointer and value are checked) or >=1 keyword",
		Assumptions: []string{
			"no reference evaluator: the default-mode verdict is the yardstick for the other modes",
			"pointer/value clause is asserted for the returned *SchemaError and members of returned MultiErrors only (errors nested as Origin are not asserted, as the property says)",
			"for SchemaField==required the pointer's parent is resolved",
		},
		Bounds: func(tier string) map[string]any {
			b, d, vs := c12Budget(tier)
			return map[string]any{"keyword_instances": b, "nesting_depth": d, "values": len(c12Values(vs)), "discriminator_schemas": len(c12DiscNames), "discriminator_values": len(c12DiscValues()), "modes": 34}
		},
		MinOutcomes: 2,
		DevBound:    func(string) int { return 1 },
		Init: func(r *core.Run) {
			l := openapi3.NewLoader()
			d, err := l.LoadFromData([]byte(c12DiscDoc))
			if err != nil {
				panic(err)
			}
			if err := d.Validate(context.Background()); err != nil {
				panic(err)
			}
			discDoc = d
		},
		Body: func(r *core.Run, x *explore.X) {
			budget, depth, vs := c12Budget(r.Tier)
			family := x.Choose(3)
			var raw map[string]any
			var s *openapi3.Schema
			var sj string
			var vals []any
			if family == 2 {
				// a few schemas of three and four keyword instances in which two keywords report on the same collection
				// (the quick budget of two cannot combine them): judged like family 0
				raw = cloneJSON(explore.Pick(x, c12Combined)).(map[string]any)
				sj = CanonJSON(raw)
				vals = c12Values(vs)
				family = 0
			} else if family == 0 {
				b := budget
				raw = c12Alphabet.Gen(x, &b, depth)
				sj = CanonJSON(raw)
				vals = c12Values(vs)
			} else {
				name := explore.Pick(x, c12DiscNames)
				sj = "disc:" + name
				s = discDoc.Components.Schemas[name].Value
				vals = c12DiscValues()
			}
			order := x.Deviate(2)
			if !r.Own(x) {
				return
			}
			if family == 0 {
				var err error
				s, err = loadSchema(raw)
				if err != nil {
					r.Fail(x, "schema-loads", "unmarshal:"+sj, map[string]any{"schema": sj, "err": err.Error()})
					return
				}
			}
			if r.WantSample(x) {
				r.Sample(x, map[string]any{"schema": sj, "values": len(vals), "example_value": vals[len(vals)/3], "map_order": order})
			}
			for i, v := range vals {
				fs, base := c12Judge(r, s, v, order)
				r.Case(fmt.Sprintf("%s|%d|%d", sj, i, order), base == "false" || len(raw) > 0)
				r.Validated(1)
				r.Outcome("default-accepts=" + base)
				for _, f := range fs {
					sig := sj + " @ " + CanonJSON(v)
					d := f.detail
					d["schema"], d["value"] = sj, CanonJSON(v)
					if family == 0 {
						ms, mv := ShrinkSV(raw, v, func(s2 map[string]any, v2 any) bool {
							is, err := loadSchema(s2)
							if err != nil {
								return false
							}
							fs2, _ := c12Judge(r, is, v2, order)
							for _, g := range fs2 {
								if g.clause == f.clause {
									return true
								}
							}
							return false
						})
						sig = CanonJSON(ms) + " @ " + CanonJSON(mv)
						d["witness_schema"], d["witness_value"] = ms, mv
					}
					r.Fail(x, f.clause, sig, d)
				}
			}
		},
	})
}
