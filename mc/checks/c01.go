package checks

import (
	"encoding/json"
	"fmt"

	"github.com/getkin/kin-openapi/openapi3"

	"verifmc/core"
	"verifmc/explore"
	"verifmc/ref"
)

// loadSchema builds the implementation's schema object from raw JSON.
func loadSchema(raw map[string]any) (*openapi3.Schema, error) {
	b, err := json.Marshal(raw)
	if err != nil {
		return nil, err
	}
	var s openapi3.Schema
	if err := json.Unmarshal(b, &s); err != nil {
		return nil, err
	}
	return &s, nil
}

func c01Budget(tier string) (budget, depth, vsize int) {
	if tier == "thorough" {
		return 3, 2, 2
	}
	return 2, 2, 1
}

// implVerdict runs VisitJSON and IsMatching on a fresh copy of the value.
func implVerdict(s *openapi3.Schema, v any) (visit bool, matching bool) {
	visit = s.VisitJSON(cloneJSON(v)) == nil
	matching = s.IsMatching(cloneJSON(v))
	return
}

func init() {
	var values [][]any = make([][]any, 3)
	for i := range values {
		values[i] = ValueSet(i)
	}
	core.Register(&core.Check{
		ID: "C01",
		Rule: "every schema with at most B keyword instances from the alphabet (16 atom slots with 43 argument choices, 7 applicator slots with 12 forms, nesting depth<=2), " +
			"each generated exactly once in canonical slot order, crossed with the complete value list; one evaluation = one (schema,value) pair run through VisitJSON and IsMatching; " +
			"a case is non-trivial when the schema has >=1 keyword and the reference evaluator's verdict is binding (both readings of null agree)",
		Assumptions: []string{
			"reference evaluator (mc/ref/jsonschema.go) is the draft-4/OAS3.0 meaning of the keywords in the alphabet",
			"null is binding only where the strict OAS reading and the repository's documented nullable reading agree; elsewhere the oracle abstains",
			"schemas are built by json.Unmarshal into openapi3.Schema (the loader's path)",
			"regular expressions are in the RE2/ECMA common subset",
		},
		Bounds: func(tier string) map[string]any {
			b, d, vs := c01Budget(tier)
			return map[string]any{"keyword_instances": b, "nesting_depth": d, "values": len(values[vs])}
		},
		MinOutcomes: 2,
		DevBound:    func(string) int { return 1 },
		Body: func(r *core.Run, x *explore.X) {
			budget, depth, vs := c01Budget(r.Tier)
			b := budget
			raw := GenSchema(x, &b, depth)
			order := x.Deviate(2) // map iteration policy: ascending (default) / descending
			if !r.Own(x) {
				return
			}
			sj := CanonJSON(raw)
			var s *openapi3.Schema
			ok := r.Guard(x, "unmarshal", map[string]any{"schema": sj}, func() {
				var err error
				s, err = loadSchema(raw)
				if err != nil {
					r.Fail(x, "schema-loads", "unmarshal:"+sj, map[string]any{"schema": sj, "err": err.Error()})
					s = nil
				}
			})
			if !ok || s == nil {
				return
			}
			if r.WantSample(x) {
				r.Sample(x, map[string]any{"schema": raw, "values": len(values[vs]), "example_value": values[vs][len(values[vs])/2]})
			}
			for i, v := range values[vs] {
				want := ref.Valid(raw, v, ref.Plain)
				r.Case(fmt.Sprintf("%s|%d|%d", sj, i, order), len(raw) > 0 && want != ref.Abstain)
				var visit, matching bool
				r.Exec(order)
				if !r.Guard(x, "VisitJSON", map[string]any{"schema": sj, "value": CanonJSON(v)}, func() { visit, matching = implVerdict(s, v) }) {
					r.Outcome("panic")
					continue
				}
				if want == ref.Abstain {
					r.Abstain(1)
					r.Outcome("abstain")
					continue
				}
				r.Validated(1)
				wantB := want == ref.Accept
				r.Outcome(fmt.Sprintf("ref=%v impl=%v", want, visit))
				if visit != wantB {
					clause := "accepts-invalid"
					if wantB {
						clause = "rejects-valid"
					}
					ms, mv := ShrinkSV(raw, v, func(s2 map[string]any, v2 any) bool {
						w := ref.Valid(s2, v2, ref.Plain)
						if w == ref.Abstain || (w == ref.Accept) != wantB {
							return false
						}
						is, err := loadSchema(s2)
						if err != nil {
							return false
						}
						got := false
						defer func() { recover() }()
						got, _ = implVerdict(is, v2)
						return got != wantB
					})
					r.Fail(x, clause, CanonJSON(ms)+" @ "+CanonJSON(mv), map[string]any{"schema": sj, "value": CanonJSON(v), "reference": want.String(), "VisitJSON_accepts": visit,
						"witness_schema": ms, "witness_value": mv})
				}
				if matching != visit {
					r.Fail(x, "ismatching-differs", sj+" @ "+CanonJSON(v), map[string]any{"schema": sj, "value": CanonJSON(v), "VisitJSON_accepts": visit, "IsMatching": matching})
				}
			}
		},
	})
}
