package checks

import (
	"fmt"
	"hash/fnv"
	"math"
	"os"
	"os/exec"
	"path/filepath"
	"reflect"
	"sort"
	"strings"

	"github.com/getkin/kin-openapi/verifhook"

	"verifmc/c15ops"
	"verifmc/core"
	"verifmc/explore"
)

// ---- deep structural hash (frame condition) ----

type hasher struct {
	seen map[uintptr]bool
}

func deepHash(v any) uint64 {
	h := &hasher{seen: map[uintptr]bool{}}
	return h.hash(reflect.ValueOf(v), 0)
}

func mix(a, b uint64) uint64 {
	a ^= b + 0x9e3779b97f4a7c15 + (a << 6) + (a >> 2)
	return a
}

func hashStr(s string) uint64 {
	f := fnv.New64a()
	f.Write([]byte(s))
	return f.Sum64()
}

func (h *hasher) hash(v reflect.Value, depth int) uint64 {
	if !v.IsValid() {
		return 1
	}
	if depth > 200 {
		return 2
	}
	acc := hashStr(v.Type().String())
	switch v.Kind() {
	case reflect.Bool:
		if v.Bool() {
			return mix(acc, 3)
		}
		return mix(acc, 4)
	case reflect.Int, reflect.Int8, reflect.Int16, reflect.Int32, reflect.Int64:
		return mix(acc, uint64(v.Int()))
	case reflect.Uint, reflect.Uint8, reflect.Uint16, reflect.Uint32, reflect.Uint64, reflect.Uintptr:
		return mix(acc, v.Uint())
	case reflect.Float32, reflect.Float64:
		return mix(acc, math.Float64bits(v.Float()))
	case reflect.Complex64, reflect.Complex128:
		c := v.Complex()
		return mix(mix(acc, math.Float64bits(real(c))), math.Float64bits(imag(c)))
	case reflect.String:
		return mix(acc, hashStr(v.String()))
	case reflect.Ptr:
		if v.IsNil() {
			return mix(acc, 5)
		}
		p := v.Pointer()
		if h.seen[p] {
			return mix(acc, 6)
		}
		h.seen[p] = true
		return mix(acc, h.hash(v.Elem(), depth+1))
	case reflect.Interface:
		if v.IsNil() {
			return mix(acc, 7)
		}
		return mix(acc, h.hash(v.Elem(), depth+1))
	case reflect.Slice:
		if v.IsNil() {
			return mix(acc, 8)
		}
		// the spare capacity belongs to the shared state too: an append by one caller writes there, where another
		// caller's append will write as well
		if v.Cap() > v.Len() && v.Cap()-v.Len() <= 64 {
			if full, ok := c15FullSlice(v); ok {
				acc = mix(acc, uint64(v.Len()))
				for i := 0; i < full.Len(); i++ {
					acc = mix(acc, h.hash(full.Index(i), depth+1))
				}
				return acc
			}
		}
		fallthrough
	case reflect.Array:
		acc = mix(acc, uint64(v.Len()))
		for i := 0; i < v.Len(); i++ {
			acc = mix(acc, h.hash(v.Index(i), depth+1))
		}
		return acc
	case reflect.Map:
		if v.IsNil() {
			return mix(acc, 9)
		}
		var sum uint64
		it := v.MapRange()
		for it.Next() {
			sum += mix(h.hash(it.Key(), depth+1), h.hash(it.Value(), depth+1)) // order independent
		}
		return mix(mix(acc, uint64(v.Len())), sum)
	case reflect.Struct:
		t := v.Type()
		if t.PkgPath() == "sync" || t.PkgPath() == "sync/atomic" || strings.HasPrefix(t.PkgPath(), "github.com/getkin/kin-openapi/verifhook") {
			return acc // locks and once-flags are synchronisation state, not document content
		}
		for i := 0; i < v.NumField(); i++ {
			acc = mix(acc, h.hash(v.Field(i), depth+1))
		}
		return acc
	case reflect.Func, reflect.Chan, reflect.UnsafePointer:
		if v.IsNil() {
			return mix(acc, 10)
		}
		return mix(acc, uint64(v.Pointer()))
	}
	return acc
}

// ---- the controlled scheduler ----

type c15Thread struct {
	id        int
	resume    chan struct{}
	done      bool
	blockedOn any
	results   []string
	panicked  string
}

type c15Sched struct {
	r           *core.Run
	owned       bool // ownership of the subtree decided after ownDepth scheduling decisions (shards the schedule tree itself)
	ownAsked    bool
	aborted     bool
	decisions   int
	x           *explore.X
	threads     []*c15Thread
	cur         int
	events      chan int // a thread hands control back
	points      int64
	switches    int
	trace       []string
	deadlock    bool
	byGoroutine map[*c15Thread]bool
}

func (s *c15Sched) current() *c15Thread { return s.threads[s.cur] }

// Point is called by the running thread: hand control to the scheduler and wait to be resumed.
func (s *c15Sched) Point(kind string, obj any) {
	if s.aborted {
		return // a foreign shard: run to completion without further scheduling
	}
	t := s.current()
	s.points++
	s.events <- t.id
	<-t.resume
}

func (s *c15Sched) Block(obj any) {
	if s.aborted {
		panic("c15: blocked after abort") // cannot happen: after the abort threads run one at a time to completion
	}
	t := s.current()
	t.blockedOn = obj
	s.events <- t.id
	<-t.resume
}

func (s *c15Sched) Wake(obj any) {
	for _, t := range s.threads {
		if t.blockedOn == obj {
			t.blockedOn = nil
		}
	}
}

// run executes the thread bodies under every choice the explorer makes.
func (s *c15Sched) run(bodies []func(t *c15Thread)) {
	s.events = make(chan int)
	for i, b := range bodies {
		t := &c15Thread{id: i, resume: make(chan struct{})}
		s.threads = append(s.threads, t)
		go func(t *c15Thread, b func(t *c15Thread)) {
			<-t.resume
			defer func() {
				if p := recover(); p != nil {
					t.panicked = fmt.Sprint(p)
				}
				t.done = true
				s.events <- t.id
			}()
			b(t)
		}(t, b)
	}
	verifhook.Sched = s
	defer func() { verifhook.Sched = nil }()
	s.cur = 0
	first := true
	for {
		var enabled []int
		curEnabled := false
		for _, t := range s.threads {
			if !t.done && t.blockedOn == nil {
				enabled = append(enabled, t.id)
				if t.id == s.cur {
					curEnabled = true
				}
			}
		}
		if len(enabled) == 0 {
			for _, t := range s.threads {
				if !t.done {
					s.deadlock = true
				}
			}
			return
		}
		// canonical order: the running thread first if still enabled, then ascending ids
		order := enabled
		if curEnabled && !first {
			order = []int{s.cur}
			for _, id := range enabled {
				if id != s.cur {
					order = append(order, id)
				}
			}
		}
		if s.decisions == c15OwnDepth && !s.ownAsked {
			s.ownAsked = true
			if s.owned = s.r.Own(s.x); !s.owned {
				s.aborted = true
			}
		}
		s.decisions++
		var pick int
		if s.aborted {
			pick = enabled[0]
			s.cur = pick
			s.threads[pick].resume <- struct{}{}
			<-s.events
			continue
		}
		if curEnabled && !first {
			pick = order[s.x.Deviate(len(order))] // switching away from a runnable thread is a preemption
		} else {
			pick = order[s.x.Choose(len(order))]
		}
		first = false
		if pick != s.cur {
			s.switches++
		}
		s.cur = pick
		s.trace = append(s.trace, fmt.Sprint(pick))
		s.threads[pick].resume <- struct{}{}
		<-s.events
	}
}

// ---- scenarios ----

type c15Scenario struct {
	name    string
	threads [][]string // op names per thread; "GEN" = schema generation for the scenario's fresh type
}

var c15Scenarios = []c15Scenario{
	{"same template, different methods (route then validate)", [][]string{{"GET-valid"}, {"POST-valid"}}},
	{"same template, three threads", [][]string{{"GET-valid"}, {"POST-valid"}, {"POST-invalid"}}},
	{"two operations per thread", [][]string{{"GET-valid", "POST-valid"}, {"POST-invalid", "GET-invalid"}}},
	{"defaults, pattern and uniqueItems on one schema", [][]string{{"POST-valid"}, {"POST-valid"}, {"VisitJSON"}}},
	{"schema generation for one uncached type", [][]string{{"GEN"}, {"GEN"}, {"GEN"}}},
	{"generation next to validation", [][]string{{"GEN", "VisitJSON-ok"}, {"GEN", "POST-valid"}}},
	{"encoder registry writer next to readers", [][]string{{"POST-valid"}, {"RegisterEncoder"}, {"POST-valid"}}},
	{"legacy and gorilla routers on one document", [][]string{{"POST-legacy"}, {"POST-valid"}, {"GET-valid"}}},
	{"VisitJSON twice on the shared schema", [][]string{{"VisitJSON", "VisitJSON-ok"}, {"VisitJSON-ok", "VisitJSON"}}},
	{"one operation reached through two servers, legacy router", [][]string{{"POST-legacy"}, {"POST-legacy-beta"}, {"POST-legacy"}}},
	{"one operation reached through two servers, gorillamux", [][]string{{"GET-valid"}, {"GET-beta"}}},
	{"one pattern text under two regular-expression engines", [][]string{{"PAT-default"}, {"PAT-other-engine"}}},
	{"one pattern text under two engines, three threads", [][]string{{"PAT-other-engine"}, {"PAT-default", "PAT-other-engine"}, {"PAT-default"}}},
}

var c15Alone = map[string]string{}

var c15TypeCounter = 1 << 10

var c15AloneCounter = 1 << 40

// scheduling decisions after which the subtree is assigned to a worker
const c15OwnDepth = 5

func init() {
	core.Register(&core.Check{
		ID: "C15",
		Rule: "part 1 (frame condition): every operation of the alphabet (route+validate request/response for valid and invalid GET/POST over both routers, VisitJSON, schema generation, encoder registration) run alone must leave a deep structural hash of the shared document, both routers and the shared schema unchanged; " +
			"part 2 (controlled scheduler): 13 scenarios of 2-3 threads x 1-2 operations chosen to collide (same path template with different methods, same schema with pattern/uniqueItems/defaults, one uncached Go type, registry writer next to readers, one pattern text validated under the default and under a per-call regular-expression engine); scheduling points at every sync operation (vsync shim), at every access to a package-level variable of the library (instrumented) and between finding a route and using it; " +
			"all interleavings with <=2 (quick) / <=3 (thorough) preemptions, blocking modelled, no enabled thread = deadlock; every call must return the verdict it returns alone; part 3: a free-running -race pass of the same operations for all pairs, 20 (quick) / 200 (thorough) repetitions. non-trivial = a schedule with at least one context switch",
		Assumptions: []string{
			"scheduling points are the sync operations, the package-level variable accesses and the operation boundaries; unsynchronised heap accesses between them are the business of part 1 (writes to shared memory) and part 3 (race detector)",
			"the race pass is a detector, not a proof: it sees the schedules that occur",
			"verdict strings contain the error's first line: they must not depend on the schedule",
		},
		Bounds: func(tier string) map[string]any {
			return map[string]any{"threads": 3, "operations_per_thread": 2, "preemption_bound": map[string]int{"quick": 2, "thorough": 3}[tier], "scenarios": len(c15Scenarios)}
		},
		DevBound: func(tier string) int {
			if tier == "thorough" {
				return 3
			}
			return 2
		},
		MinOutcomes:   2,
		ShrinkVectors: false,
		Body: func(r *core.Run, x *explore.X) {
			part := x.Choose(3)
			switch part {
			case 0:
				c15Frame(r, x)
			case 1:
				c15Schedule(r, x)
			case 2:
				c15RacePass(r, x)
			}
		},
	})
}

func c15OpsList() []string {
	names := make([]string, 0, len(c15ops.Ops))
	for n := range c15ops.Ops {
		names = append(names, n)
	}
	sort.Strings(names)
	return append(names, "GEN", "PAT-default", "PAT-other-engine")
}

func c15Op(name string, typeN int) c15ops.Op {
	if name == "GEN" {
		return c15ops.GenOp(typeN)
	}
	if name == "PAT-default" || name == "PAT-other-engine" {
		return c15ops.PatternOp(typeN, name == "PAT-other-engine")
	}
	return c15ops.Ops[name]
}

func c15Frame(r *core.Run, x *explore.X) {
	ops := c15OpsList()
	name := explore.Pick(x, ops)
	if !r.Own(x) {
		return
	}
	c15TypeCounter++
	s := c15ops.NewShared()
	before := deepHash(s)
	var v string
	sig := "frame op=" + name
	if !r.Guard(x, "op", map[string]any{"op": name}, func() { v = c15Op(name, c15TypeCounter).Run(s, nil) }) {
		return
	}
	after := deepHash(s)
	r.Case(sig, true)
	r.Validated(1)
	r.Outcome("frame " + fmt.Sprint(before == after))
	if r.WantSample(x) {
		r.Sample(x, map[string]any{"part": "frame condition", "operation": name, "verdict": v, "hash": fmt.Sprintf("%016x", before)})
	}
	if before != after {
		r.Fail(x, "operation-writes-shared-state", sig, map[string]any{"operation": name, "verdict": v, "note": "the deep structural hash of the shared document/routers/schema changed: a concurrent reader would race with this write"})
	}
}

func c15Schedule(r *core.Run, x *explore.X) {
	sc := explore.Pick(x, c15Scenarios)
	c15TypeCounter++
	typeN := c15TypeCounter
	// verdicts alone
	alone := c15Alone // verdicts of every operation run alone on fresh shared state (computed once per worker)
	for _, th := range sc.threads {
		for _, name := range th {
			if _, ok := alone[name]; !ok {
				// every stand-alone run gets a number of its own: nothing keyed by it can have been touched by another run
				c15AloneCounter++
				alone[name] = c15Op(name, c15AloneCounter).Run(c15ops.NewShared(), nil)
			}
		}
	}
	shared := c15ops.NewShared()
	s := &c15Sched{x: x, r: r}
	var bodies []func(t *c15Thread)
	for _, th := range sc.threads {
		th := th
		bodies = append(bodies, func(t *c15Thread) {
			for _, name := range th {
				s.Point("op:"+name, nil)
				t.results = append(t.results, c15Op(name, typeN).Run(shared, func() { s.Point("between", nil) }))
			}
		})
	}
	s.run(bodies)
	if !s.ownAsked {
		s.owned = r.Own(x) // a schedule shorter than the sharding depth
	}
	if !s.owned {
		return
	}
	sig := fmt.Sprintf("scenario=%q schedule=%s", sc.name, strings.Join(s.trace, ""))
	r.Case(sig, s.switches > 0)
	r.Validated(1)
	r.Count("schedules", 1)
	r.Count("scheduling_points", s.points)
	r.Max("max_schedule_length", int64(len(s.trace)))
	if r.WantSample(x) {
		r.Sample(x, map[string]any{"part": "controlled scheduler", "scenario": sc.name, "threads": sc.threads, "schedule(thread ids)": strings.Join(s.trace, ""), "preemptions": x.Deviations()})
	}
	detail := map[string]any{"scenario": sc.name, "threads": sc.threads, "schedule": strings.Join(s.trace, ""), "preemptions": x.Deviations()}
	if s.deadlock {
		r.Fail(x, "deadlock", "scenario="+sc.name, detail)
		r.Outcome("deadlock")
		return
	}
	ok := true
	for ti, t := range s.threads {
		if t.panicked != "" {
			d := cloneDetailAny(detail)
			d["panic"] = t.panicked
			r.Fail(x, "panic-under-schedule", "scenario="+sc.name, d)
			ok = false
			continue
		}
		for oi, name := range sc.threads[ti] {
			if oi >= len(t.results) {
				continue
			}
			want := alone[name]
			got := t.results[oi]
			if name == "GEN" {
				want = strings.Split(want, " verif")[0]
			}
			if got != want {
				d := cloneDetailAny(detail)
				d["operation"], d["verdict_alone"], d["verdict_under_schedule"] = name, want, got
				r.Fail(x, "verdict-depends-on-the-schedule:"+name, "scenario="+sc.name+" op="+name, d)
				ok = false
			}
		}
	}
	r.Outcome(fmt.Sprintf("schedule ok=%v", ok))
}

// c15FullSlice re-slices v up to its capacity (false when reflection refuses, e.g. for slices reached through unexported fields).
func c15FullSlice(v reflect.Value) (full reflect.Value, ok bool) {
	defer func() {
		if recover() != nil {
			ok = false
		}
	}()
	return v.Slice(0, v.Cap()), true
}

func c15RacePass(r *core.Run, x *explore.X) {
	if !r.Own(x) {
		return
	}
	bin := filepath.Join(core.VerifDir, ".cache", "racepass.bin")
	if _, err := os.Stat(bin); err != nil {
		r.Fail(x, "race-pass-binary-missing", "racepass", map[string]any{"error": err.Error()})
		return
	}
	// batches of 20 repetitions per operation pair (quick: one batch, thorough: ten); the watchdog is told after each batch
	batches := 1
	if r.Tier == "thorough" {
		batches = 10
	}
	var text string
	var err error
	var pairsSum, callsSum int64
	for b := 0; b < batches && err == nil; b++ {
		cmd := exec.Command(bin, "20")
		cmd.Env = append(os.Environ(), "GORACE=halt_on_error=1 exitcode=66", "GOMAXPROCS=16")
		var out []byte
		out, err = cmd.CombinedOutput()
		text = string(out)
		var p, c, m int64
		for _, ln := range strings.Split(text, "\n") {
			if strings.HasPrefix(ln, "RACEPASS") {
				fmt.Sscanf(ln, "RACEPASS pairs=%d calls=%d mismatches=%d", &p, &c, &m)
			}
		}
		pairsSum, callsSum = p, callsSum+c
		r.Tick()
	}
	r.Case("race-pass", true)
	r.Validated(1)
	summary := ""
	for _, ln := range strings.Split(text, "\n") {
		if strings.HasPrefix(ln, "RACEPASS") {
			summary = ln
		}
	}
	r.Sample(x, map[string]any{"part": "free-running race pass", "summary": summary})
	if err != nil {
		if len(text) > 3000 {
			text = text[:3000]
		}
		clause := "race-pass-fails"
		site := "race"
		if strings.Contains(text, "DATA RACE") {
			clause = "data-race"
			site = core.PanicSite(text)
		} else if strings.Contains(text, "MISMATCH") {
			clause = "verdict-depends-on-the-schedule(free-running)"
		}
		r.Fail(x, clause, "racepass:"+site, map[string]any{"output": text})
		r.Outcome("race pass failed")
		return
	}
	r.Count("race_pass_pairs", pairsSum)
	r.Count("race_pass_calls", callsSum)
	r.Outcome("race pass clean")
}
