package checks

import (
	"context"
	"encoding/json"
	"fmt"
	"net/http"
	"strings"

	"github.com/getkin/kin-openapi/openapi3"
	"github.com/getkin/kin-openapi/routers"
	"github.com/getkin/kin-openapi/routers/gorillamux"
	"github.com/getkin/kin-openapi/routers/legacy"

	"verifmc/core"
	"verifmc/explore"
	"verifmc/ref"
)

// templates over the segment alphabet {a, b, {x}, {y}} with up to n segments (no variable twice)
func c09Templates(n int, full bool) []string {
	segs := []string{"a", "b", "{x}", "w{x}", "wa"}
	if full {
		segs = []string{"a", "b", "{x}", "{y}", "w{x}", "wa"}
	}
	return c09TemplatesOver(n, segs)
}

func c09TemplatesOver(n int, segs []string) []string {
	var out []string
	var rec func(prefix []string)
	rec = func(prefix []string) {
		if len(prefix) > 0 {
			out = append(out, "/"+strings.Join(prefix, "/"))
		}
		if len(prefix) == n {
			return
		}
		for _, s := range segs {
			dup := false
			for _, p := range prefix {
				if strings.Contains(p, "{x}") && strings.Contains(s, "{x}") || strings.Contains(p, "{y}") && strings.Contains(s, "{y}") {
					dup = true
				}
			}
			if !dup {
				rec(append(append([]string{}, prefix...), s))
			}
		}
	}
	rec(nil)
	return out
}

// request paths: every path of up to n segments over {a,b,c} (thorough: also a.b), a few dotted ones, and (relaxed) paths with empty segments
func c09Paths(n int, dotted bool) (strict []string, relaxed []string) {
	segs := []string{"a", "b", "c", "wa", "w1"}
	if dotted {
		segs = append(segs, "a.b")
	}
	var rec func(prefix []string)
	rec = func(prefix []string) {
		if len(prefix) > 0 {
			strict = append(strict, "/"+strings.Join(prefix, "/"))
		}
		if len(prefix) == n {
			return
		}
		for _, s := range segs {
			rec(append(append([]string{}, prefix...), s))
		}
	}
	rec(nil)
	if !dotted {
		strict = append(strict, "/a.b", "/a/a.b", "/a.b/a")
	}
	relaxed = []string{"/a/", "/a//b", "//a", "/a/b/", "/"}
	return
}

var tplTriples, tplQuick, tplThorough, pathsQuick, pathsThorough, relaxedPaths []string

func c09Init() {
	tplQuick, tplThorough = c09Templates(2, false), c09Templates(2, true)
	tplTriples = c09TemplatesOver(2, []string{"a", "{x}", "w{x}", "wa"})
	pathsQuick, relaxedPaths = c09Paths(2, false)
	pathsQuick = append(pathsQuick, "/a/b/c", "/a/a/a", "/c/a/b")
	pathsThorough, _ = c09Paths(3, false) // <=3 segments over {a,b,c,wa,w1} plus three dotted paths
}

var c09Outcomes = map[[3]bool]string{}

func c09Outcome(a, b, c bool) string {
	k := [3]bool{a, b, c}
	if s, ok := c09Outcomes[k]; ok {
		return s
	}
	s := fmt.Sprintf("server_matches=%v servable=%v routed=%v", a, b, c)
	c09Outcomes[k] = s
	return s
}

type c09Server struct {
	name     string
	servers  any
	prefixes []c09Prefix
}

type c09Prefix = struct {
	url     string
	matches bool
	base    string
	origin  bool // origin-form request (what a server sees: URL without scheme and host, Host header set)
}

var c09Servers = []c09Server{
	{"none", nil, []c09Prefix{{"http://any.test", true, "", false}, {"http://any.test", true, "", true}}},
	{"/v1", l(m("url", "/v1")), []c09Prefix{{"http://any.test/v1", true, "/v1", true}, {"http://any.test", false, "", true}, {"http://any.test/v2", false, "", true}, {"http://any.test/V1", false, "", true}}}, // paths are case-sensitive
	{"http://h.example/v1", l(m("url", "http://h.example/v1")), []c09Prefix{{"http://h.example/v1", true, "/v1", false}, {"http://other.test/v1", false, "", false}, {"http://h.example/v2", false, "", false}, {"http://h.example/V1", false, "", false}}},
	{"https://{env}.example/{base}", l(m("url", "https://{env}.example/{base}", "variables", m("env", m("default", "prod", "enum", l("prod", "dev")), "base", m("default", "v1")))),
		[]c09Prefix{{"https://prod.example/v1", true, "/v1", false}, {"https://dev.example/v1", true, "/v1", false}, {"https://other.test/v1", false, "", false}}},
	{"two servers", l(m("url", "/v1"), m("url", "/api")), []c09Prefix{{"http://any.test/v1", true, "/v1", true}, {"http://any.test/api", true, "/api", true}, {"http://any.test/v3", false, "", true}}},
	// absolute servers that differ in one component only: the scheme, the base path
	{"one host under two schemes", l(m("url", "http://h.example/v1"), m("url", "https://h.example/v1")),
		[]c09Prefix{{"http://h.example/v1", true, "/v1", false}, {"https://h.example/v1", true, "/v1", false}, {"https://other.test/v1", false, "", false}}},
	{"one host with two base paths", l(m("url", "http://h.example/v1"), m("url", "http://h.example/v2")),
		[]c09Prefix{{"http://h.example/v1", true, "/v1", false}, {"http://h.example/v2", true, "/v2", false}, {"http://h.example/v3", false, "", false}}},
}

var c09MethodSets = [][]string{{"get"}, {"post"}, {"get", "post"}}

func c09Doc(templates []string, methods [][]string, servers any) map[string]any {
	paths := m()
	for i, t := range templates {
		pi := m()
		var params []any
		for _, v := range ref.TemplateVars(t) {
			params = append(params, m("name", v, "in", "path", "required", true, "schema", m("type", "string")))
		}
		if params != nil {
			pi["parameters"] = params
		}
		for _, meth := range methods[i] {
			pi[meth] = m("operationId", fmt.Sprintf("%s%d", meth, i), "responses", m("200", m("description", "ok")))
		}
		paths[t] = pi
	}
	doc := m("openapi", "3.0.3", "info", m("title", "t", "version", "1"), "paths", paths)
	if servers != nil {
		doc["servers"] = servers
	}
	return doc
}

func init() {
	core.Register(&core.Check{
		ID: "C09",
		Rule: "documents: every set of 1-2 path templates of up to 2 segments over {a, b, {x}, w{x} (variable with a literal prefix inside the segment), wa} (thorough: also {y}, every method set, request paths of up to 3 segments; plus every set of 3 templates over {a, {x}, w{x}, wa} under three server lists) that passes validation, each template with methods {GET}, {POST} or {GET,POST}, x servers {none, /v1, http://h.example/v1, https://{env}.example/{base} with enum and defaults, two relative servers, one host under two schemes, one host with two base paths}; " +
			"requests: every path of up to 2 segments over {a,b,c} plus dotted and three 3-segment paths (thorough: up to 4 segments over {a,b,c,a.b}), and five paths with empty segments / trailing slashes (relaxed: only no-panic and operation identity) under every matching and non-matching server prefix x {GET, POST, PUT}; both routers (legacy under both map orders). Invariants: (i) a returned route carries the operation declared for (route.Path, method) and its parameters reproduce the path; " +
			"(ii) a path that fills a declared template with a declared method under a declared server is routed; (iii) a literal template equal to the path wins; (iv) no template or no server => a RouteError and no route. non-trivial = the request path matches at least one template of the document",
		Assumptions: []string{
			"independent matcher mc/ref/route.go: segment-wise, variables bind non-empty slash-free text",
			"server model: the listed matching/non-matching URL prefixes per server form; scheme mismatches are not driven",
			"unknown methods such as PROPFIND belong to C10",
		},
		Bounds:        func(tier string) map[string]any { return map[string]any{"templates_per_document": map[string]int{"quick": 2, "thorough": 3}[tier], "servers": len(c09Servers)} },
		MinOutcomes:   3,
		ShrinkVectors: true,
		DevBound:      func(string) int { return 1 },
		CapSeconds: func(tier string) int {
			if tier == "thorough" {
				return 3600
			}
			return 300
		},
		Init: func(r *core.Run) {
			c09Init()
		},
		Body: func(r *core.Run, x *explore.X) {
			if tplQuick == nil {
				c09Init()
			}
			tpls, paths, maxSet := tplQuick, pathsQuick, 2
			servers := c09Servers
			wide := false
			if r.Tier != "thorough" && x.Choose(2) == 1 {
				// quick tier, second family: every triple of templates below one literal segment (a variable, a mixed segment
				// and two literals as siblings) under two server lists: sorting and tie-breaking among three siblings
				tpls, maxSet = []string{"/a/{x}", "/a/a", "/a/wa", "/a/w{x}", "/a/b"}, 3
				servers = []c09Server{c09Servers[0], c09Servers[1]}
			}
			if r.Tier == "thorough" {
				// two families, both complete: (wide) sets of <=2 templates over the full segment alphabet with every method set and
				// request paths of <=3 segments; (triples) sets of 3 templates over {a,{x},w{x},wa} under three server lists
				if x.Choose(2) == 0 {
					tpls, paths, maxSet, wide = tplThorough, pathsThorough, 2, true
				} else {
					tpls, paths, maxSet = tplTriples, pathsQuick, 3
					servers = []c09Server{c09Servers[0], c09Servers[1], c09Servers[5]}
				}
			}
			nStrict := len(paths)
			paths = append(append([]string{}, paths...), relaxedPaths...)
			// a set of templates: strictly increasing indices
			n := 1 + x.Choose(maxSet)
			if maxSet == 3 {
				n = 3
			}
			var set []string
			var methods [][]string
			start := 0
			for i := 0; i < n; i++ {
				if start >= len(tpls) {
					return
				}
				k := start + x.Choose(len(tpls)-start)
				set = append(set, tpls[k])
				if wide {
					methods = append(methods, explore.Pick(x, c09MethodSets))
				} else {
					methods = append(methods, explore.Pick(x, c09MethodSets[1:])) // quick tier: {POST} and {GET,POST}
				}
				start = k + 1
			}
			srv := explore.Pick(x, servers)
			order := x.Deviate(2)
			if !r.Own(x) {
				return
			}
			docRaw := c09Doc(set, methods, srv.servers)
			docJSON, _ := json.Marshal(docRaw)
			sig := fmt.Sprintf("templates=%v methods=%v servers=%s", set, methods, srv.name)
			doc, err := openapi3.NewLoader().LoadFromData(docJSON)
			if err != nil {
				panic(err)
			}
			if err := doc.Validate(context.Background()); err != nil {
				r.Outcome("document-invalid(skipped)")
				return
			}
			detail := map[string]any{"document": string(docJSON)}
			type rt struct {
				name string
				r    routers.Router
			}
			var rts []rt
			r.Exec(order)
			if !r.Guard(x, "NewRouter", detail, func() {
				g, err := gorillamux.NewRouter(doc)
				if err != nil {
					panic("gorillamux.NewRouter: " + err.Error())
				}
				lg, err := legacy.NewRouter(doc)
				if err != nil {
					panic("legacy.NewRouter: " + err.Error())
				}
				rts = []rt{{"gorillamux", g}, {"legacy", lg}}
			}) {
				return
			}
			if order == 1 {
				rts = rts[1:] // map order only concerns the legacy router
			}
			if r.WantSample(x) {
				r.Sample(x, map[string]any{"document": docRaw, "requests": len(paths) * len(srv.prefixes) * 3})
			}
			declares := func(i int, method string) bool {
				for _, mth := range methods[i] {
					if strings.EqualFold(mth, method) {
						return true
					}
				}
				return false
			}
			docStr, orderStr := string(docJSON), fmt.Sprint(order)
			for _, router := range rts {
				for _, pf := range srv.prefixes {
					for pi, p := range paths {
						relaxed := pi >= nStrict // empty segments / trailing slashes: only "no panic" and operation identity are asserted
						// independent matching
						var matching []int
						literal := -1
						for i, t := range set {
							if _, ok := ref.MatchTemplate(t, p); ok {
								matching = append(matching, i)
								if t == p {
									literal = i
								}
							}
						}
						for _, method := range []string{"GET", "POST", "PUT"} {
							req, rerr := http.NewRequest(method, pf.url+p, nil)
							if rerr != nil {
								continue
							}
							if pf.origin {
								req.Host = req.URL.Host
								req.URL.Scheme, req.URL.Host = "", ""
							}
							var route *routers.Route
							var params map[string]string
							var ferr error
							form := "absolute-form"
							if pf.origin {
								form = "origin-form"
							}
							rsig := sig + " | " + method + " " + pf.url + p + " (" + form + ") via " + router.name
							r.Exec(order)
							d := map[string]any{"document": docStr, "request": method + " " + pf.url + p, "router": router.name}
							if !r.Guard(x, "FindRoute", d, func() { route, params, ferr = router.r.FindRoute(req) }) {
								continue
							}
							r.Case(rsig+orderStr, len(matching) > 0)
							r.Validated(1)
							servable := false
							for _, i := range matching {
								if declares(i, method) {
									servable = true
								}
							}
							r.Outcome(c09Outcome(pf.matches, servable, ferr == nil && route != nil))
							fail := func(clause string, kv ...any) {
								dd := cloneDetailAny(d)
								for i := 0; i+1 < len(kv); i += 2 {
									dd[kv[i].(string)] = kv[i+1]
								}
								if ferr != nil {
									dd["error"] = ferr.Error()
								}
								if route != nil {
									dd["route_path"], dd["path_params"] = route.Path, params
								}
								// the signature names the router and the structural class of the failure, not the particular document:
								// one router defect shows in hundreds of documents and requests
								class := ""
								if route != nil {
									// one or more trailing variable segments of the template are missing from the path
									tsegs := strings.Split(route.Path, "/")
									cand := strings.TrimSuffix(p, "/")
									for k := 1; k <= 3 && k < len(tsegs); k++ {
										last := tsegs[len(tsegs)-k]
										if !(strings.HasPrefix(last, "{") && strings.HasSuffix(last, "}")) {
											break
										}
										cand += "/zz"
										if _, ok := ref.MatchTemplate(route.Path, cand); ok {
											class = " [the path is the template minus its trailing variable: the variable is bound to the empty string]"
											break
										}
									}
								}
								dd["first_witness"] = rsig
								r.Fail(x, clause+":"+router.name+class, "router="+router.name+" "+clause+class, dd)
							}
							if ferr == nil && route == nil {
								fail("nil-route-without-error")
								continue
							}
							if relaxed {
								if ferr == nil && (route.Operation == nil || route.Operation != doc.Paths.Value(route.Path).GetOperation(method)) {
									fail("i-operation-is-not-the-one-declared-for-template-and-method")
								}
								continue
							}
							if ferr != nil {
								if route != nil {
									fail("route-returned-together-with-error")
								}
								if _, ok := ferr.(*routers.RouteError); !ok {
									fail("error-is-not-a-RouteError", "error_type", fmt.Sprintf("%T", ferr))
								}
								if pf.matches && servable {
									shadow := false
									for _, i := range matching {
										if !declares(i, method) {
											shadow = true
										}
									}
									if shadow {
										fail("ii-not-routed:another-matching-template-lacks-the-method")
									} else {
										fail("ii-declared-template-server-and-method-not-routed")
									}
								}
								continue
							}
							// a route was returned
							if !pf.matches || len(matching) == 0 {
								fail("iv-route-for-a-url-matching-no-template-or-no-server")
								continue
							}
							// (i) operation identity and path reproduction
							ti := -1
							for i, t := range set {
								if t == route.Path {
									ti = i
								}
							}
							if ti < 0 {
								fail("i-route-path-is-not-a-declared-template")
								continue
							}
							wantOp := doc.Paths.Value(route.Path).GetOperation(method)
							if route.Operation == nil || route.Operation != wantOp || !declares(ti, method) {
								fail("i-operation-is-not-the-one-declared-for-template-and-method")
								continue
							}
							if got := pf.base + ref.FillTemplate(route.Path, params); got != pf.base+p {
								fail("i-parameters-do-not-reproduce-the-request-path", "reconstructed", got)
								continue
							}
							for _, v := range ref.TemplateVars(route.Path) {
								if params[v] == "" {
									fail("i-empty-or-missing-path-parameter", "variable", v)
								}
							}
							if literal >= 0 && declares(literal, method) && route.Path != set[literal] {
								fail("iii-literal-template-does-not-win")
							}
						}
					}
				}
			}
		},
	})
}
