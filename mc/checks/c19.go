package checks

import (
	"bytes"
	"context"
	"encoding/json"
	"fmt"
	"io"
	"net/http"
	"net/url"
	"strings"

	"github.com/getkin/kin-openapi/openapi3"
	"github.com/getkin/kin-openapi/openapi3filter"
	"github.com/getkin/kin-openapi/routers"

	"verifmc/core"
	"verifmc/explore"
)

var c19Alphabet = DefaultAlphabetWith(
	[][]kwOpt{{{"format", "date"}, {"format", "date-time"}, {"format", "byte"}, {"format", "ipv4"}, {"format", "ipv6"}, {"format", "int32"}}},
	[]kwOpt{{"pattern", "["}},
)

const (
	mk1 = "zq7Kx1"
	mk2 = "zq7Kx2"
	mk3 = "zq7Kx3"
)

// mkS is a one-character marker (for minLength failures): a printable non-ASCII rune that occurs in no
// schema of the alphabet and in no reason template.
const mkS = "\u029e"

// mkD is a marker in the shape of a date that is no calendar date: it passes any check of the shape alone, so a
// checker that goes further (and quotes what it could not parse) is reached only by such a value
const mkD = "1987-02-30"

var c19Markers = []string{mk1, mk2, mk3, mkS, `\u029e`, `\U0000029e`, `\x{29e}`, mkD}

func c19Values() []any {
	return []any{
		mk1, []any{mk1}, []any{mk1, mk2}, []any{mk1, mk1}, []any{[]any{mk1}}, []any{1.0, mk1}, []any{mk1, mk2, mk3},
		map[string]any{"a": mk1}, map[string]any{"b": mk1}, map[string]any{"c": mk1}, map[string]any{"a": mk1, "b": mk2}, map[string]any{"a": mk1, "c": mk2},
		map[string]any{"a": map[string]any{"a": mk1}}, map[string]any{"a": []any{mk1, mk2}}, []any{map[string]any{"a": mk1}}, map[string]any{"a": 1.0, "b": mk1},
		map[string]any{"a": mk1, "b": mk2, "c": mk3}, map[string]any{"a": "a", "b": mk1}, []any{"a", mk1},
		"1.2.3.4 " + mk1, "::1" + mk1,
		mkD, []any{mkD}, map[string]any{"a": mkD}, mkD + "T25:61:61Z",
		mkS, []any{mkS}, map[string]any{"a": mkS}, map[string]any{"c": mkS}, []any{mkS, mk1}, map[string]any{"a": map[string]any{"a": mkS}},
	}
}

func c19DiscValues() []any {
	return []any{
		map[string]any{"t": mk1}, map[string]any{"t": "a", "n": mk1}, map[string]any{"t": "b", "s": mk1, "x": mk2}, map[string]any{"t": "b", "s": mk1[:1]},
		map[string]any{"h": map[string]any{"t": mk1}}, []any{map[string]any{"t": mk1}}, map[string]any{"x": mk1}, map[string]any{"h": map[string]any{"x": mk1}},
		map[string]any{"t": []any{mk1}}, mk1,
	}
}

// walkSchemaErrors visits every *SchemaError reachable from err (members, Origin chains, wrapped errors).
func walkSchemaErrors(err error, depth int, visit func(*openapi3.SchemaError)) {
	if err == nil || depth > 50 {
		return
	}
	switch e := err.(type) {
	case *openapi3.SchemaError:
		visit(e)
		walkSchemaErrors(e.Origin, depth+1, visit)
		return
	case openapi3.MultiError:
		for _, m := range e {
			walkSchemaErrors(m, depth+1, visit)
		}
		return
	}
	if u, ok := err.(interface{ Unwrap() error }); ok {
		walkSchemaErrors(u.Unwrap(), depth+1, visit)
	}
	if u, ok := err.(interface{ Unwrap() []error }); ok {
		for _, m := range u.Unwrap() {
			walkSchemaErrors(m, depth+1, visit)
		}
	}
}

func containsMarker(s string) string {
	for _, m := range c19Markers {
		if strings.Contains(s, m) {
			return m
		}
	}
	// a marker prefix of 5+ characters also counts (truncated quotes)
	if strings.Contains(s, "zq7Kx") {
		return "zq7Kx"
	}
	return ""
}

type c19Finding struct {
	clause string
	detail map[string]any
}

// c19Judge validates v against s in every standalone mode and through the request/response validators.
func c19Judge(r *core.Run, s *openapi3.Schema, v any, order int, filter bool) (out []c19Finding, rejected bool) {
	defer func() {
		openapi3.SchemaErrorDetailsDisabled = true
		if p := recover(); p != nil {
			out = append(out, c19Finding{"no-panic", map[string]any{"panic": fmt.Sprint(p)}})
		}
	}()
	sites := func(mode string, err error) {
		walkSchemaErrors(err, 0, func(se *openapi3.SchemaError) {
			r.Count("schema_errors_inspected", 1)
			r.Count("site/"+se.SchemaField+"/"+reasonTemplate(se.Reason), 1)
			if m := containsMarker(se.Reason); m != "" {
				out = append(out, c19Finding{"reason-leaks-value:" + se.SchemaField, map[string]any{"mode": mode, "field": se.SchemaField, "reason": se.Reason}})
			}
		})
		if err != nil {
			if m := containsMarker(err.Error()); m != "" {
				out = append(out, c19Finding{"error-text-leaks-value(details disabled)", map[string]any{"mode": mode, "error": err.Error()}})
			}
		}
	}
	for _, ff := range []bool{false, true} {
		for _, me := range []bool{false, true} {
			r.Exec(order)
			err := s.VisitJSON(cloneJSON(v), c12Opts(ff, me, 0)...)
			if err != nil {
				rejected = true
			}
			sites(fmt.Sprintf("standalone ff=%v multi=%v", ff, me), err)
			// the same call with schema error details enabled (the default): the Reason fields must be clean there too
			// (Error() legitimately quotes the value in that setting and is not inspected)
			openapi3.SchemaErrorDetailsDisabled = false
			r.Exec(order)
			err2 := s.VisitJSON(cloneJSON(v), c12Opts(ff, me, 0)...)
			openapi3.SchemaErrorDetailsDisabled = true
			walkSchemaErrors(err2, 0, func(se *openapi3.SchemaError) {
				if m := containsMarker(se.Reason); m != "" {
					out = append(out, c19Finding{"reason-leaks-value:" + se.SchemaField, map[string]any{"mode": fmt.Sprintf("standalone(details enabled) ff=%v multi=%v", ff, me), "field": se.SchemaField, "reason": se.Reason}})
				}
			})
		}
	}
	if !filter || !rejected {
		return
	}
	// through the request and response validators, with a reason-only customiser and with details disabled
	doc := &openapi3.T{OpenAPI: "3.0.3", Info: &openapi3.Info{Title: "t", Version: "1"}, Paths: openapi3.NewPaths()}
	op := &openapi3.Operation{
		RequestBody: &openapi3.RequestBodyRef{Value: openapi3.NewRequestBody().WithJSONSchemaRef(&openapi3.SchemaRef{Value: s})},
		Responses:   openapi3.NewResponses(openapi3.WithStatus(200, &openapi3.ResponseRef{Value: openapi3.NewResponse().WithDescription("d").WithJSONSchemaRef(&openapi3.SchemaRef{Value: s})})),
	}
	pi := &openapi3.PathItem{Post: op}
	doc.Paths.Set("/t", pi)
	route := &routers.Route{Spec: doc, Path: "/t", PathItem: pi, Method: "POST", Operation: op}
	body, _ := json.Marshal(v)
	// the same schema as a parameter (defined by content, so that any JSON value can be sent): the third place a value is validated
	qop := &openapi3.Operation{
		Parameters: openapi3.Parameters{&openapi3.ParameterRef{Value: &openapi3.Parameter{Name: "p", In: "query", Content: openapi3.NewContentWithJSONSchemaRef(&openapi3.SchemaRef{Value: s})}}},
		Responses:  openapi3.NewResponses(),
	}
	qpi := &openapi3.PathItem{Get: qop}
	doc.Paths.Set("/q", qpi)
	qroute := &routers.Route{Spec: doc, Path: "/q", PathItem: qpi, Method: "GET", Operation: qop}
	// reasonOnly: with the reason-only customiser the whole message is assembled from reasons, so it must be clean even
	// with schema error details enabled (the default), where the standard rendering quotes the value
	reasonOnly := func(mode string, call func() error) {
		openapi3.SchemaErrorDetailsDisabled = false
		r.Exec(order)
		err := call()
		openapi3.SchemaErrorDetailsDisabled = true
		if err != nil {
			if m := containsMarker(err.Error()); m != "" {
				out = append(out, c19Finding{"message-assembled-from-reasons-leaks-value", map[string]any{"mode": mode, "error": err.Error()}})
			}
		}
	}
	for _, custom := range []bool{false, true} {
		for _, multi := range []bool{false, true} {
			opts := &openapi3filter.Options{MultiError: multi}
			if custom {
				opts.WithCustomSchemaErrorFunc(func(e *openapi3.SchemaError) string { return e.Reason })
			}
			req, _ := http.NewRequest("POST", "http://h.example/t", bytes.NewReader(body))
			req.Header.Set("Content-Type", "application/json")
			in := &openapi3filter.RequestValidationInput{Request: req, Route: route, Options: opts}
			r.Exec(order)
			err := openapi3filter.ValidateRequest(context.Background(), in)
			mode := fmt.Sprintf("ValidateRequest custom=%v multi=%v", custom, multi)
			if err == nil {
				out = append(out, c19Finding{"filter-verdict", map[string]any{"mode": mode, "note": "standalone rejects, request validation accepts"}})
			} else {
				sites(mode, err)
			}
			rin := &openapi3filter.ResponseValidationInput{RequestValidationInput: in, Status: 200, Header: http.Header{"Content-Type": {"application/json"}}, Body: io.NopCloser(bytes.NewReader(body)), Options: opts}
			r.Exec(order)
			err = openapi3filter.ValidateResponse(context.Background(), rin)
			mode = fmt.Sprintf("ValidateResponse custom=%v multi=%v", custom, multi)
			if err != nil {
				sites(mode, err)
			}
			newQ := func() *openapi3filter.RequestValidationInput {
				qreq, _ := http.NewRequest("GET", "http://h.example/q?p="+url.QueryEscape(string(body)), nil)
				return &openapi3filter.RequestValidationInput{Request: qreq, Route: qroute, Options: opts}
			}
			if v != nil {
				r.Exec(order)
				err = openapi3filter.ValidateRequest(context.Background(), newQ())
				mode = fmt.Sprintf("ValidateRequest(parameter) custom=%v multi=%v", custom, multi)
				if err == nil {
					out = append(out, c19Finding{"filter-verdict", map[string]any{"mode": mode, "note": "standalone rejects, parameter validation accepts"}})
				} else {
					sites(mode, err)
				}
			}
			if custom {
				reasonOnly(fmt.Sprintf("ValidateRequest(body, details enabled) custom=true multi=%v", multi), func() error {
					req, _ := http.NewRequest("POST", "http://h.example/t", bytes.NewReader(body))
					req.Header.Set("Content-Type", "application/json")
					return openapi3filter.ValidateRequest(context.Background(), &openapi3filter.RequestValidationInput{Request: req, Route: route, Options: opts})
				})
				reasonOnly(fmt.Sprintf("ValidateResponse(details enabled) custom=true multi=%v", multi), func() error {
					return openapi3filter.ValidateResponse(context.Background(), &openapi3filter.ResponseValidationInput{RequestValidationInput: in, Status: 200, Header: http.Header{"Content-Type": {"application/json"}}, Body: io.NopCloser(bytes.NewReader(body)), Options: opts})
				})
				if v != nil {
					reasonOnly(fmt.Sprintf("ValidateRequest(parameter, details enabled) custom=true multi=%v", multi), func() error {
						return openapi3filter.ValidateRequest(context.Background(), newQ())
					})
				}
			}
		}
	}
	return
}

// reasonTemplate strips quoted and numeric parts so that a reason identifies its construction site.
func reasonTemplate(s string) string {
	var b strings.Builder
	inq := false
	for _, c := range s {
		switch {
		case c == '"':
			inq = !inq
		case inq:
		case c >= '0' && c <= '9':
		default:
			b.WriteRune(c)
		}
	}
	t := b.String()
	if len(t) > 48 {
		t = t[:48]
	}
	return t
}

func c19Budget(tier string) (int, int) {
	if tier == "thorough" {
		return 3, 2
	}
	return 2, 2
}

func init() {
	var discDoc *openapi3.T
	core.Register(&core.Check{
		ID: "C19",
		Rule: "family 0: every schema with <=B keyword instances of the C01 alphabet extended with formats (date, date-time, byte, ipv4, ipv6, int32) and an uncompilable pattern, x 21 values whose every string leaf is a unique marker; " +
			"family 1: six discriminator schemas x 10 marker values. Each rejected pair is validated standalone in 4 modes and (for budget<=2 schemas) through ValidateRequest/ValidateResponse with details disabled and with a reason-only message function, single and multi-error; " +
			"non-trivial = the value is rejected (there is a reason to inspect)",
		Assumptions: []string{
			"markers are ASCII alphanumeric tokens that do not occur in any schema of the alphabet; object keys are not string values and are not marked",
			"SchemaErrorDetailsDisabled is set for the whole worker process so that Error() texts are the reasons-only rendering",
			"reachability: MultiError members, SchemaError.Origin chains, Unwrap() error and Unwrap() []error",
		},
		Bounds: func(tier string) map[string]any {
			b, d := c19Budget(tier)
			return map[string]any{"keyword_instances": b, "nesting_depth": d, "values": len(c19Values()), "discriminator_values": len(c19DiscValues())}
		},
		MinOutcomes: 2,
		DevBound:    func(string) int { return 1 },
		Post: func(tier string, cov map[string]any) {
			n := 0
			if cs, ok := cov["counters"].(map[string]int64); ok {
				for k := range cs {
					if strings.HasPrefix(k, "site/") {
						n++
					}
				}
			}
			cov["reason_sites_reached"] = n
		},
		Init: func(r *core.Run) {
			openapi3.SchemaErrorDetailsDisabled = true
			openapi3.DefineIPv4Format()
			openapi3.DefineIPv6Format()
			l := openapi3.NewLoader()
			d, err := l.LoadFromData([]byte(c12DiscDoc))
			if err != nil {
				panic(err)
			}
			discDoc = d
		},
		Body: func(r *core.Run, x *explore.X) {
			budget, depth := c19Budget(r.Tier)
			family := x.Choose(2)
			var raw map[string]any
			var s *openapi3.Schema
			var sj string
			var vals []any
			if family == 0 {
				b := budget
				raw = c19Alphabet.Gen(x, &b, depth)
				sj = CanonJSON(raw)
				vals = c19Values()
			} else {
				name := explore.Pick(x, c12DiscNames)
				sj = "disc:" + name
				s = discDoc.Components.Schemas[name].Value
				vals = c19DiscValues()
			}
			order := x.Deviate(2)
			if !r.Own(x) {
				return
			}
			if family == 0 {
				var err error
				if s, err = loadSchema(raw); err != nil {
					r.Fail(x, "schema-loads", "unmarshal:"+sj, map[string]any{"schema": sj, "err": err.Error()})
					return
				}
			}
			filter := family == 1 || r.Tier == "quick" || x.Deviations() == 0
			if r.WantSample(x) {
				r.Sample(x, map[string]any{"schema": sj, "values": len(vals), "example_value": vals[len(vals)/2], "map_order": order})
			}
			for i, v := range vals {
				fs, rejected := c19Judge(r, s, v, order, filter)
				r.Case(fmt.Sprintf("%s|%d|%d", sj, i, order), rejected)
				r.Validated(1)
				r.Outcome(fmt.Sprintf("rejected=%v", rejected))
				seen := map[string]bool{}
				for _, f := range fs {
					if seen[f.clause] {
						continue
					}
					seen[f.clause] = true
					sig := sj + " @ " + CanonJSON(v)
					d := f.detail
					d["schema"], d["value"] = sj, CanonJSON(v)
					if family == 0 {
						ms, mv := ShrinkSV(raw, v, func(s2 map[string]any, v2 any) bool {
							is, err := loadSchema(s2)
							if err != nil {
								return false
							}
							fs2, _ := c19Judge(r, is, v2, order, filter)
							for _, g := range fs2 {
								if g.clause == f.clause {
									return true
								}
							}
							return false
						})
						sig = CanonJSON(ms) + " @ " + CanonJSON(mv)
						d["witness_schema"], d["witness_value"] = ms, mv
					}
					r.Fail(x, f.clause, sig, d)
				}
			}
		},
	})
}
