package checks

import (
	"encoding/json"
	"fmt"
	"net/url"
	"path"
	"strings"

	"github.com/getkin/kin-openapi/openapi3"

	"verifmc/core"
	"verifmc/explore"
	"verifmc/ref"
)

// reference forms of C11: how the planted reference spells a location other than the root
var c11Forms = []string{
	"rel", "dot-rel", "sub-rel", "parent-escape", "abs-path", "file-url", "http-url", "https-url", "scheme-relative",
	"other-host-same-path-http", "other-host-same-path-scheme-relative", "same-name-other-dir",
	// the root's own name in another letter case, in the root's directory: a different file
	"own-name-in-another-letter-case",
}

func c11RefString(form, rootLoc string, frag bool) string {
	name := "w.json"
	if frag {
		name = "c.json"
	}
	rootPath := rootLoc
	if u, err := url.Parse(rootLoc); err == nil && u.Scheme != "" {
		rootPath = u.Path
	}
	if rootPath == "" {
		rootPath = "/w/api/root.json" // LoadFromData has no location: the forms that reuse the root's path use the default one
	}
	switch form {
	case "rel":
		return name
	case "dot-rel":
		return "./" + name
	case "sub-rel":
		return "sub/" + name
	case "parent-escape":
		return "../../up-" + name
	case "abs-path":
		return "/etc/" + name
	case "file-url":
		return "file:///etc/f-" + name
	case "http-url":
		return "http://ext.example/x/" + name
	case "https-url":
		return "https://ext.example/x/" + name
	case "scheme-relative":
		return "//ext.example/x/" + name
	case "other-host-same-path-http":
		return "http://evil.example" + rootPath
	case "other-host-same-path-scheme-relative":
		return "//evil.example" + rootPath
	case "same-name-other-dir":
		return "elsewhere/" + path.Base(rootPath)
	case "own-name-in-another-letter-case":
		return strings.ToUpper(path.Base(rootPath))
	}
	panic(form)
}

// sameLoc compares locations modulo an inherited scheme ("//h/x" equals "http://h/x").
func sameLoc(a, b string) bool {
	if a == b {
		return true
	}
	strip := func(s string) string {
		if i := strings.Index(s, "://"); i > 0 {
			return s[i+1:]
		}
		return s
	}
	if strings.HasPrefix(a, "//") || strings.HasPrefix(b, "//") {
		return strip(a) == strip(b)
	}
	// file:///p equals /p
	fa, fb := strings.TrimPrefix(a, "file://"), strings.TrimPrefix(b, "file://")
	return fa == fb
}

type c11Case struct {
	Kind, Form, Entry string
	Frag, Allow       bool
	Pos               Position
}

func (c c11Case) sig() string {
	return fmt.Sprintf("kind=%s form=%s fragment=%v entry=%s external_allowed=%v pos=%s", c.Kind, c.Form, c.Frag, c.Entry, c.Allow, c.Pos.String())
}

// refsIn collects every $ref string of a raw document.
func refsIn(node any, out *[]string) {
	switch x := node.(type) {
	case map[string]any:
		if r, ok := x["$ref"].(string); ok {
			*out = append(*out, r)
		}
		for _, k := range sortedKeys(x) {
			refsIn(x[k], out)
		}
	case []any:
		for _, e := range x {
			refsIn(e, out)
		}
	}
}

func init() {
	core.Register(&core.Check{
		ID: "C11",
		Rule: "skeleton document with one external reference planted at each of its 121 reference positions (all ten kinds), spelled in 12 forms (relative, ./, sub/, ../ escape, absolute path, file://, http://, https://, //host, other host with the root's own path, same file name in another directory) x {whole file, fragment} " +
			"x 5 entry points x external references allowed/disallowed; deviation: the reader answers a non-root read with an error or garbage instead of content (<=1 per load). Monitor on every URL handed to ReadFromURIFunc. non-trivial = every case (each plants a reference that needs a read beyond the root)",
		Assumptions: []string{
			"allowed set when external references are allowed: the root, plus RFC 3986 resolution of every $ref string occurring in a document the reader has already returned, against that document's location",
			"locations are compared modulo an inherited scheme (//h/x equals http://h/x) and file:///p equals /p",
			"the reader is an in-memory ReadFromURIFunc; DefaultReadFromURI is not exercised",
		},
		Bounds: func(tier string) map[string]any {
			return map[string]any{"positions": 121, "forms": len(c11Forms), "entries": 5, "reader_answer_deviations": 1}
		},
		MinOutcomes:   2,
		ShrinkVectors: true,
		DevBound:      func(string) int { return 1 },
		Body: func(r *core.Run, x *explore.X) {
			var c c11Case
			c.Kind = explore.Pick(x, RefKinds)
			c.Pos = explore.Pick(x, positionsOfKind(c.Kind))
			c.Form = explore.Pick(x, c11Forms)
			c.Frag = x.Bool()
			c.Entry = explore.Pick(x, []string{"DataWithPath", "File", "URI", "HTTP", "Data"})
			c.Allow = x.Bool()
			if !r.Own(x) {
				return
			}
			rootLoc := "/w/api/root.json"
			switch c.Entry {
			case "HTTP":
				rootLoc = "http://h.example/w/api/root.json"
			case "Data":
				rootLoc = ""
			}
			root := Skeleton()
			refStr := c11RefString(c.Form, rootLoc, c.Frag)
			sec := SectionOf[c.Kind]
			full := refStr
			if c.Frag {
				full += "#/components/" + sec + "/Tgt"
			}
			SetAt(root, c.Pos.Ptr, map[string]any{"$ref": full})
			files := ref.Files{rootLoc: root}
			tgtLoc, _, err := ref.ResolveURL(rootLoc, refStr)
			if err != nil {
				panic(err)
			}
			leafRef := ""
			if kindHasNestedSchema(c.Kind) {
				leafRef = "leaf.json#/components/schemas/Leaf"
				leafLoc, _, _ := ref.ResolveURL(tgtLoc, "leaf.json")
				files[leafLoc] = componentsDoc(map[string]map[string]any{"schemas": {"Leaf": map[string]any{"type": "string"}}})
			}
			if c.Frag {
				files[tgtLoc] = componentsDoc(map[string]map[string]any{sec: {"Tgt": targetObject(c.Kind, leafRef)}})
			} else {
				files[tgtLoc] = targetObject(c.Kind, leafRef)
			}
			sig := c.sig()
			if r.WantSample(x) {
				r.Sample(x, map[string]any{"case": sig, "planted": full, "root": rootLoc, "files": sortedKeys(map[string]any(files))})
			}
			// monitor
			allowed := []string{rootLoc}
			var reads, bad []string
			addRefs := func(loc string, doc any) {
				var rs []string
				refsIn(doc, &rs)
				for _, rr := range rs {
					if tl, _, err := ref.ResolveURL(loc, rr); err == nil {
						allowed = append(allowed, tl)
					}
				}
			}
			addRefs(rootLoc, root)
			if !c.Allow {
				allowed = []string{rootLoc}
			}
			l := openapi3.NewLoader()
			l.IsExternalRefsAllowed = c.Allow
			l.ReadFromURIFunc = func(_ *openapi3.Loader, u *url.URL) ([]byte, error) {
				key := readerKey(u)
				reads = append(reads, u.String())
				ok := false
				for _, a := range allowed {
					if sameLoc(a, key) {
						ok = true
						break
					}
				}
				if !ok {
					bad = append(bad, u.String())
				}
				var doc any
				found := false
				for loc, d := range files {
					if sameLoc(loc, key) {
						doc, found = d, true
						if c.Allow {
							addRefs(loc, d)
						}
						break
					}
				}
				if !sameLoc(key, rootLoc) {
					switch x.Deviate(3) {
					case 1:
						return nil, fmt.Errorf("injected read error")
					case 2:
						return []byte("\x00garbage{"), nil
					}
				}
				if !found {
					return nil, fmt.Errorf("open %s: no such file", u)
				}
				return json.Marshal(doc)
			}
			rootBytes, _ := json.Marshal(root)
			var lerr error
			r.Exec(0)
			okRun := r.Guard(x, "Load", map[string]any{"case": sig, "planted": full}, func() {
				switch c.Entry {
				case "Data":
					_, lerr = l.LoadFromData(rootBytes)
				case "DataWithPath":
					_, lerr = l.LoadFromDataWithPath(rootBytes, &url.URL{Path: rootLoc})
				case "File":
					_, lerr = l.LoadFromFile(rootLoc)
				case "URI":
					_, lerr = l.LoadFromURI(&url.URL{Path: rootLoc})
				case "HTTP":
					u, _ := url.Parse(rootLoc)
					_, lerr = l.LoadFromURI(u)
				}
			})
			if !okRun {
				r.Outcome("panic")
				return
			}
			r.Validated(1)
			r.Case(fmt.Sprintf("%s|%v", sig, x.Choices()), true)
			r.Outcome(fmt.Sprintf("allowed=%v loaded=%v reads_beyond_root=%v", c.Allow, lerr == nil, len(reads) > 1 || (len(reads) == 1 && !sameLoc(readerKey(mustParse(reads[0])), rootLoc))))
			if len(bad) > 0 {
				clause := "no-read-beyond-root-when-disallowed"
				if c.Allow {
					clause = "reads-only-locations-derived-from-loaded-documents"
				}
				r.Fail(x, clause, sig, map[string]any{"case": sig, "planted": full, "reads": reads, "illegitimate_reads": bad, "allowed": allowed})
			}
		},
	})
}

func mustParse(s string) *url.URL {
	u, err := url.Parse(s)
	if err != nil {
		return &url.URL{Path: s}
	}
	return u
}
