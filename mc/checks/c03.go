package checks

import (
	"encoding/json"
	"fmt"
	"strings"

	"github.com/getkin/kin-openapi/openapi2"
	"github.com/getkin/kin-openapi/openapi3"
	"github.com/oasdiff/yaml"

	"verifmc/core"
	"verifmc/explore"
	"verifmc/ref"
)

// ---- specification tables: every field the specifications define, with a non-default sample value ----

type specField struct {
	key string
	val any
}

type specKind struct {
	name   string
	host   string      // JSON pointer in the host document where the object stands
	base   []specField // fields that are always present (required by the loader to parse the host)
	fields []specField
}

func m(kv ...any) map[string]any {
	out := map[string]any{}
	for i := 0; i+1 < len(kv); i += 2 {
		out[kv[i].(string)] = kv[i+1]
	}
	return out
}

func l(v ...any) []any {
	if v == nil {
		return []any{} // an empty JSON array, not null
	}
	return v
}

var strSchema = m("type", "string")

// OpenAPI 3.0.3
var spec3 = []specKind{
	{"openapi", "", []specField{{"openapi", "3.0.3"}, {"info", m("title", "t", "version", "1")}, {"paths", m()}}, []specField{
		{"servers", l(m("url", "/v1"))}, {"components", m("schemas", m("S", strSchema))}, {"security", l(m("k", l()))}, {"tags", l(m("name", "t"))}, {"externalDocs", m("url", "https://e.example/d")}}},
	{"info", "/info", []specField{{"title", "t"}, {"version", "1"}}, []specField{{"description", "d"}, {"termsOfService", "https://e.example/tos"}, {"contact", m("name", "n")}, {"license", m("name", "MIT")}}},
	{"contact", "/info/contact", nil, []specField{{"name", "n"}, {"url", "https://e.example/c"}, {"email", "a@e.example"}}},
	{"license", "/info/license", []specField{{"name", "MIT"}}, []specField{{"url", "https://e.example/l"}}},
	{"server", "/servers/0", []specField{{"url", "https://{v}.e.example"}}, []specField{{"description", "d"}, {"variables", m("v", m("default", "a"))}}},
	{"serverVariable", "/servers/0/variables/v", []specField{{"default", "a"}}, []specField{{"enum", l("a", "b")}, {"description", "d"}}},
	{"components", "/components", nil, []specField{{"schemas", m("S", strSchema)}, {"responses", m("R", m("description", "d"))}, {"parameters", m("P", m("name", "p", "in", "query", "schema", strSchema))},
		{"examples", m("E", m("value", 1.0))}, {"requestBodies", m("B", m("content", m("text/plain", m("schema", strSchema))))}, {"headers", m("H", m("schema", strSchema))},
		{"securitySchemes", m("SS", m("type", "http", "scheme", "basic"))}, {"links", m("L", m("operationId", "o"))}, {"callbacks", m("C", m("{$request.body#/u}", m("description", "d")))}}},
	{"pathItem", "/paths/~1p", nil, []specField{{"summary", "s"}, {"description", "d"}, {"get", opMin()}, {"put", opMin()}, {"post", opMin()}, {"delete", opMin()}, {"options", opMin()}, {"head", opMin()}, {"patch", opMin()}, {"trace", opMin()},
		{"servers", l(m("url", "/alt"))}, {"parameters", l(m("name", "q", "in", "query", "schema", strSchema))}}},
	{"operation", "/paths/~1p/get", []specField{{"responses", m("200", m("description", "ok"))}}, []specField{{"tags", l("t")}, {"summary", "s"}, {"description", "d"}, {"externalDocs", m("url", "https://e.example/o")}, {"operationId", "op"},
		{"parameters", l(m("name", "q", "in", "query", "schema", strSchema))}, {"requestBody", m("content", m("text/plain", m("schema", strSchema)))}, {"callbacks", m("cb", m("{$request.body#/u}", m("description", "d")))},
		{"deprecated", true}, {"security", l(m("k", l("s")))}, {"servers", l(m("url", "/op"))}}},
	{"externalDocs", "/externalDocs", []specField{{"url", "https://e.example/d"}}, []specField{{"description", "d"}}},
	{"parameter", "/paths/~1p/get/parameters/0", []specField{{"name", "q"}, {"in", "query"}}, []specField{{"description", "d"}, {"required", true}, {"deprecated", true}, {"allowEmptyValue", true}, {"style", "form"}, {"explode", false},
		{"allowReserved", true}, {"schema", strSchema}, {"example", "x"}, {"examples", m("e", m("value", "x"))}, {"content", m("application/json", m("schema", strSchema))}}},
	{"requestBody", "/paths/~1p/get/requestBody", []specField{{"content", m("text/plain", m("schema", strSchema))}}, []specField{{"description", "d"}, {"required", true}}},
	{"mediaType", "/paths/~1p/get/requestBody/content/application~1x-www-form-urlencoded", nil, []specField{{"schema", m("type", "object", "properties", m("a", strSchema))}, {"example", m("a", "x")}, {"examples", m("e", m("value", m("a", "x")))}, {"encoding", m("a", m("style", "form"))}}},
	{"encoding", "/paths/~1p/get/requestBody/content/multipart~1form-data/encoding/a", nil, []specField{{"contentType", "text/plain"}, {"headers", m("X-H", m("schema", strSchema))}, {"style", "form"}, {"explode", true}, {"allowReserved", true}}},
	{"responses", "/paths/~1p/get/responses", nil, []specField{{"default", m("description", "d")}, {"200", m("description", "ok")}, {"4XX", m("description", "c")}}},
	{"response", "/paths/~1p/get/responses/200", []specField{{"description", "ok"}}, []specField{{"headers", m("X-H", m("schema", strSchema), "Content-Type", m("schema", strSchema), "accept", m("description", "a header with the name of a request header"))}, {"content", m("text/plain", m("schema", strSchema))}, {"links", m("l", m("operationId", "o"))}}},
	{"example", "/components/examples/E", nil, []specField{{"summary", "s"}, {"description", "d"}, {"value", m("a", l(1.0, "x"))}, {"externalValue", "https://e.example/v"}}},
	{"link", "/components/links/L", nil, []specField{{"operationRef", "#/paths/~1p/get"}, {"operationId", "o"}, {"parameters", m("q", "$request.path.id")}, {"requestBody", m("a", 1.0)}, {"description", "d"}, {"server", m("url", "/l")}}},
	{"header", "/components/headers/H", nil, []specField{{"description", "d"}, {"required", true}, {"deprecated", true}, {"allowEmptyValue", true}, {"style", "simple"}, {"explode", true}, {"allowReserved", true},
		{"schema", strSchema}, {"example", "x"}, {"examples", m("e", m("value", "x"))}, {"content", m("application/json", m("schema", strSchema))}}},
	{"tag", "/tags/0", []specField{{"name", "t"}}, []specField{{"description", "d"}, {"externalDocs", m("url", "https://e.example/t")}}},
	{"schema", "/components/schemas/S", nil, []specField{{"title", "T"}, {"multipleOf", 2.0}, {"maximum", 10.0}, {"exclusiveMaximum", true}, {"minimum", 1.0}, {"exclusiveMinimum", true}, {"maxLength", 5.0}, {"minLength", 1.0}, {"pattern", "^a"},
		{"maxItems", 3.0}, {"minItems", 1.0}, {"uniqueItems", true}, {"maxProperties", 4.0}, {"minProperties", 1.0}, {"required", l("a")}, {"enum", l("a", 1.0, nil)}, {"type", "object"},
		{"allOf", l(strSchema)}, {"oneOf", l(strSchema)}, {"anyOf", l(strSchema)}, {"not", strSchema}, {"items", strSchema}, {"properties", m("a", strSchema)}, {"additionalProperties", strSchema},
		{"description", "d"}, {"format", "int64"}, {"default", "dv"}, {"nullable", true}, {"discriminator", m("propertyName", "t")}, {"readOnly", true}, {"writeOnly", true},
		{"xml", m("name", "n")}, {"externalDocs", m("url", "https://e.example/s")}, {"example", m("a", "x")}, {"deprecated", true}}},
	{"schema-nested", "/components/schemas/S/properties/n", nil, []specField{{"type", "array"}, {"items", m("type", "integer", "format", "int32")}, {"additionalProperties", false}, {"additionalProperties", true}, {"nullable", true}, {"default", l()}, {"example", 0.0}, {"enum", l(0.0, false, "")}}},
	{"discriminator", "/components/schemas/S/discriminator", []specField{{"propertyName", "t"}}, []specField{{"mapping", m("a", "#/components/schemas/A")}}},
	{"xml", "/components/schemas/S/xml", nil, []specField{{"name", "n"}, {"namespace", "https://e.example/ns"}, {"prefix", "p"}, {"attribute", true}, {"wrapped", true}}},
	{"securityScheme", "/components/securitySchemes/SS", []specField{{"type", "oauth2"}}, []specField{{"description", "d"}, {"name", "k"}, {"in", "header"}, {"scheme", "bearer"}, {"bearerFormat", "JWT"},
		{"flows", m("implicit", m("authorizationUrl", "https://e.example/a", "scopes", m()))}, {"openIdConnectUrl", "https://e.example/oidc"}}},
	{"oauthFlows", "/components/securitySchemes/SS/flows", nil, []specField{{"implicit", flowMin()}, {"password", flowMin()}, {"clientCredentials", flowMin()}, {"authorizationCode", flowMin()}}},
	{"oauthFlow", "/components/securitySchemes/SS/flows/authorizationCode", []specField{{"scopes", m("r", "read")}}, []specField{{"authorizationUrl", "https://e.example/a"}, {"tokenUrl", "https://e.example/t"}, {"refreshUrl", "https://e.example/r"}}},
	{"callback", "/components/callbacks/C", nil, []specField{{"{$request.body#/u}", m("post", opMin())}, {"{$request.query.v}", m("description", "d")}}},
	{"paths", "/paths", nil, []specField{{"/a", m("get", opMin())}, {"/b/{x}", m("description", "d")}}},
	{"securityRequirement", "/security/0", nil, []specField{{"k", l()}, {"o", l("read", "write")}}},
}

func opMin() map[string]any   { return m("responses", m("200", m("description", "ok"))) }
func flowMin() map[string]any { return m("authorizationUrl", "https://e.example/a", "tokenUrl", "https://e.example/t", "scopes", m()) }

// Swagger 2.0
var spec2 = []specKind{
	{"swagger", "", []specField{{"swagger", "2.0"}, {"info", m("title", "t", "version", "1")}}, []specField{{"host", "h.example"}, {"basePath", "/v1"}, {"schemes", l("https")}, {"consumes", l("application/json")}, {"produces", l("application/json")},
		{"paths", m("/p", m("get", opMin()))}, {"definitions", m("D", strSchema)}, {"parameters", m("P", m("name", "q", "in", "query", "type", "string"))}, {"responses", m("R", m("description", "d"))},
		{"securityDefinitions", m("k", m("type", "basic"))}, {"security", l(m("k", l()))}, {"tags", l(m("name", "t"))}, {"externalDocs", m("url", "https://e.example/d")}}},
	{"pathItem2", "/paths/~1p", nil, []specField{{"get", opMin()}, {"put", opMin()}, {"post", opMin()}, {"delete", opMin()}, {"options", opMin()}, {"head", opMin()}, {"patch", opMin()}, {"parameters", l(m("name", "q", "in", "query", "type", "string"))}}},
	{"operation2", "/paths/~1p/get", []specField{{"responses", m("200", m("description", "ok"))}}, []specField{{"tags", l("t")}, {"summary", "s"}, {"description", "d"}, {"externalDocs", m("url", "https://e.example/o")}, {"operationId", "op"},
		{"consumes", l("application/json")}, {"produces", l("text/plain")}, {"parameters", l(m("name", "q", "in", "query", "type", "string"))}, {"schemes", l("https")}, {"deprecated", true}, {"security", l(m("k", l("s")))}}},
	{"parameter2", "/parameters/P", []specField{{"name", "q"}, {"in", "query"}}, []specField{{"description", "d"}, {"required", true}, {"type", "array"}, {"format", "int32"}, {"allowEmptyValue", true}, {"items", m("type", "string")}, {"collectionFormat", "csv"},
		{"default", l("a")}, {"maximum", 10.0}, {"exclusiveMaximum", true}, {"minimum", 1.0}, {"exclusiveMinimum", true}, {"maxLength", 5.0}, {"minLength", 1.0}, {"pattern", "^a"}, {"maxItems", 3.0}, {"minItems", 1.0},
		{"uniqueItems", true}, {"enum", l("a", "b")}, {"multipleOf", 2.0}}},
	{"bodyParameter2", "/parameters/B", []specField{{"name", "b"}, {"in", "body"}}, []specField{{"description", "d"}, {"required", true}, {"schema", m("type", "object")}}},
	{"response2", "/responses/R", []specField{{"description", "d"}}, []specField{{"schema", strSchema}, {"headers", m("X-H", m("type", "string"))}, {"examples", m("application/json", m("a", 1.0))}}},
	{"header2", "/responses/R/headers/X-H", []specField{{"type", "array"}}, []specField{{"description", "d"}, {"format", "int32"}, {"items", m("type", "string")}, {"collectionFormat", "csv"}, {"default", l("a")}, {"maximum", 10.0}, {"exclusiveMaximum", true},
		{"minimum", 1.0}, {"exclusiveMinimum", true}, {"maxLength", 5.0}, {"minLength", 1.0}, {"pattern", "^a"}, {"maxItems", 3.0}, {"minItems", 1.0}, {"uniqueItems", true}, {"enum", l("a")}, {"multipleOf", 2.0}}},
	{"schema2", "/definitions/D", nil, []specField{{"title", "T"}, {"multipleOf", 2.0}, {"maximum", 10.0}, {"exclusiveMaximum", true}, {"minimum", 1.0}, {"exclusiveMinimum", true}, {"maxLength", 5.0}, {"minLength", 1.0}, {"pattern", "^a"},
		{"maxItems", 3.0}, {"minItems", 1.0}, {"uniqueItems", true}, {"maxProperties", 4.0}, {"minProperties", 1.0}, {"required", l("a")}, {"enum", l("a", 1.0)}, {"type", "object"}, {"allOf", l(strSchema)}, {"items", strSchema},
		{"properties", m("a", strSchema)}, {"additionalProperties", strSchema}, {"description", "d"}, {"format", "int64"}, {"default", "dv"}, {"discriminator", "t"}, {"readOnly", true}, {"xml", m("name", "n")},
		{"externalDocs", m("url", "https://e.example/s")}, {"example", m("a", "x")}}},
	{"securityScheme2", "/securityDefinitions/k", []specField{{"type", "oauth2"}}, []specField{{"description", "d"}, {"name", "k"}, {"in", "header"}, {"flow", "accessCode"}, {"authorizationUrl", "https://e.example/a"}, {"tokenUrl", "https://e.example/t"}, {"scopes", m("r", "read")}}},
	{"items2", "/parameters/P/items", []specField{{"type", "array"}}, []specField{{"format", "int32"}, {"items", m("type", "string")}, {"collectionFormat", "csv"}, {"default", l("a")}, {"maximum", 10.0}, {"minimum", 1.0}, {"maxLength", 5.0}, {"pattern", "^a"}, {"maxItems", 3.0}, {"uniqueItems", true}, {"enum", l("a")}, {"multipleOf", 2.0}}},
}

// hostDoc builds the minimal document that contains an object at ptr (intermediate containers are created).
func hostDoc(v3 bool, ptr string, obj map[string]any) map[string]any {
	var doc map[string]any
	if v3 {
		doc = m("openapi", "3.0.3", "info", m("title", "t", "version", "1"), "paths", m())
	} else {
		doc = m("swagger", "2.0", "info", m("title", "t", "version", "1"))
	}
	if ptr == "" {
		for k, v := range obj {
			doc[k] = v
		}
		return doc
	}
	toks := strings.Split(ptr[1:], "/")
	for i := range toks {
		toks[i] = strings.ReplaceAll(strings.ReplaceAll(toks[i], "~1", "/"), "~0", "~")
	}
	var cur any = doc
	for i, t := range toks {
		last := i == len(toks)-1
		switch c := cur.(type) {
		case map[string]any:
			if last {
				c[t] = obj
				break
			}
			nx, ok := c[t]
			if !ok {
				if i+1 < len(toks) && toks[i+1] == "0" {
					nx = []any{nil}
				} else {
					nx = map[string]any{}
				}
				c[t] = nx
			}
			cur = nx
		case []any:
			if last {
				c[0] = obj
				break
			}
			if c[0] == nil {
				c[0] = map[string]any{}
			}
			cur = c[0]
		}
	}
	// fill the containers the loader needs on the way (required siblings of intermediate objects)
	fillRequired(doc, v3)
	return doc
}

// fillRequired adds the fields without which an intermediate host object is not a well-formed carrier.
func fillRequired(doc map[string]any, v3 bool) {
	var walk func(n any, path string)
	walk = func(n any, path string) {
		mm, ok := n.(map[string]any)
		if !ok {
			if ll, ok := n.([]any); ok {
				for _, e := range ll {
					walk(e, path+"/0")
				}
			}
			return
		}
		switch {
		case strings.HasSuffix(path, "/get") && strings.Contains(path, "/paths/"):
			if _, ok := mm["responses"]; !ok {
				mm["responses"] = m("200", m("description", "ok"))
			}
		case strings.HasSuffix(path, "/requestBody"):
			if _, ok := mm["content"]; !ok {
				mm["content"] = m()
			}
		case strings.HasSuffix(path, "/responses/200") || path == "/responses/R":
			if _, ok := mm["description"]; !ok {
				mm["description"] = "d"
			}
		case strings.HasSuffix(path, "/servers/0"):
			if _, ok := mm["url"]; !ok {
				mm["url"] = "https://{v}.e.example"
			}
		case strings.HasSuffix(path, "/securitySchemes/SS"):
			if _, ok := mm["type"]; !ok {
				mm["type"] = "oauth2"
			}
		case path == "/parameters/P":
			if _, ok := mm["name"]; !ok {
				mm["name"], mm["in"], mm["type"] = "q", "query", "array"
			}
		case strings.HasSuffix(path, "/schemas/S") && mm["properties"] != nil:
			if _, ok := mm["type"]; !ok {
				mm["type"] = "object"
			}
		}
		for k, v := range mm {
			walk(v, path+"/"+k)
		}
	}
	walk(doc, "")
}

type c03Case struct {
	v3     bool
	kind   specKind
	subset []int // indices into fields
	ext    int   // 0 none, 1 x-e, 2 unknown key
	yaml   bool
}

func (c c03Case) object() map[string]any {
	o := map[string]any{}
	for _, f := range c.kind.base {
		o[f.key] = cloneJSON(f.val)
	}
	for _, i := range c.subset {
		f := c.kind.fields[i]
		o[f.key] = cloneJSON(f.val)
	}
	switch c.ext {
	case 1:
		o["x-e"] = m("k", l(1.0, "a", nil), "b", true)
	case 2:
		o["zz-unknown"] = m("k", 1.0)
	}
	return o
}

func (c c03Case) sig() string {
	var names []string
	for _, i := range c.subset {
		names = append(names, c.kind.fields[i].key)
	}
	ext := []string{"", " +x-e", " +unknown-key"}[c.ext]
	fm := "json"
	if c.yaml {
		fm = "yaml"
	}
	return fmt.Sprintf("%s{%s}%s via %s", c.kind.name, strings.Join(names, ","), ext, fm)
}

// parse3 / parse2 load a document of the given version from JSON or YAML bytes and return its JSON serialisation.
func roundTrip(v3 bool, data []byte, toYAML bool) (out []byte, err error) {
	if v3 {
		doc, err := openapi3.NewLoader().LoadFromData(data)
		if err != nil {
			return nil, err
		}
		if toYAML {
			return yaml.Marshal(doc)
		}
		return json.Marshal(doc)
	}
	var doc openapi2.T
	if err := yaml.Unmarshal(data, &doc); err != nil {
		return nil, err
	}
	if toYAML {
		return yaml.Marshal(doc)
	}
	return json.Marshal(doc)
}

func init() {
	core.Register(&core.Check{
		ID: "C03",
		Rule: "for each of the 30 object kinds of OpenAPI 3.0.3 and the 10 of Swagger 2.0 (field tables written from the specifications, one non-default sample value per field): every single field, every pair of fields (thorough: every triple for kinds of <=12 fields) and all fields together, " +
			"x {no extension, an x- extension, an unknown non-x key} on the object x {JSON, YAML} input, hosted in a minimal document. D normal form: (1) canon(Marshal(Load(D))) == canon(D); (2) J1 = Marshal(Load(D)), Marshal(Load(J1)) == J1; (3) Marshal(Load(YAML(Load(D)))) == J1. " +
			"Second family, documents with references: the skeleton document with one reference of each of the 10 kinds planted at every position through every loadable graph shape (internal, alias chains, files, fragments, cycles): Marshal(Load(D)) == D with every $ref spelled as written, and the output reloads to itself. " +
			"Documents the library refuses to parse are skipped (counted). non-trivial = the object has at least one non-base field or an extension",
		Assumptions: []string{
			"field tables mc/checks/c03.go are the specifications' field lists; sample values are non-default so that the input is in normal form",
			"comparison is on canonical JSON (object key order irrelevant, numbers numeric)",
			"documents that do not load (e.g. a parameter with both schema and content) are outside the property and are skipped",
		},
		Bounds:        func(tier string) map[string]any { return map[string]any{"kinds_v3": len(spec3), "kinds_v2": len(spec2), "subset_size": map[string]int{"quick": 2, "thorough": 3}[tier]} },
		MinOutcomes:   2,
		ShrinkVectors: true,
		Body: func(r *core.Run, x *explore.X) {
			if x.Choose(2) == 1 {
				c03References(r, x)
				return
			}
			var c c03Case
			c.v3 = x.Choose(2) == 0
			kinds := spec3
			if !c.v3 {
				kinds = spec2
			}
			c.kind = explore.Pick(x, kinds)
			n := len(c.kind.fields)
			mode := x.Choose(4) // 0 all fields, 1 single, 2 pair, 3 triple
			switch mode {
			case 0:
				for i := 0; i < n; i++ {
					c.subset = append(c.subset, i)
				}
			case 1:
				c.subset = []int{x.Choose(n)}
			case 2:
				if n < 2 {
					return
				}
				i := x.Choose(n - 1)
				j := i + 1 + x.Choose(n-1-i)
				c.subset = []int{i, j}
			case 3:
				if n < 3 || n > 12 || r.Tier != "thorough" {
					return
				}
				i := x.Choose(n - 2)
				j := i + 1 + x.Choose(n-2-i)
				k := j + 1 + x.Choose(n-1-j)
				c.subset = []int{i, j, k}
			}
			c.ext = x.Choose(3)
			c.yaml = x.Bool()
			if !r.Own(x) {
				return
			}
			// all-fields objects of kinds with mutually exclusive fields: drop the later of each exclusive pair
			obj := c.object()
			if mode == 0 {
				for _, ex := range [][2]string{{"schema", "content"}, {"example", "examples"}, {"value", "externalValue"}, {"operationRef", "operationId"}, {"readOnly", "writeOnly"}} {
					if _, a := obj[ex[0]]; a {
						delete(obj, ex[1])
					}
				}
			}
			doc := hostDoc(c.v3, c.kind.host, obj)
			sig := c.sig()
			want, _ := json.Marshal(doc)
			input := want
			if c.yaml {
				input, _ = yaml.JSONToYAML(want)
			}
			r.Case(sig, len(c.subset) > 0 || c.ext > 0)
			if r.WantSample(x) {
				r.Sample(x, map[string]any{"case": sig, "document": string(want)})
			}
			detail := map[string]any{"case": sig, "document": string(want)}
			var j1 []byte
			var err error
			r.Exec(0)
			if !r.Guard(x, "load+marshal", detail, func() { j1, err = roundTrip(c.v3, input, false) }) {
				r.Outcome("panic")
				return
			}
			if err != nil {
				r.Outcome("not-parsed(skipped)")
				r.Count("documents_not_parsed", 1)
				return
			}
			r.Validated(1)
			var a, b any
			json.Unmarshal(j1, &a)
			json.Unmarshal(want, &b)
			if diffs := DiffJSON(a, b, 5); len(diffs) > 0 {
				d := cloneDetailAny(detail)
				d["diff(output vs input)"] = diffs
				d["output"] = string(j1)
				r.Fail(x, "loses-or-invents:"+c03DiffClass(diffs[0]), sig, d)
				r.Outcome("differs-from-input")
				return
			}
			// idempotence through JSON and through YAML
			var j2, y1, j3 []byte
			if !r.Guard(x, "reload", detail, func() {
				j2, err = roundTrip(c.v3, j1, false)
				if err == nil {
					y1, err = roundTrip(c.v3, j1, true)
				}
				if err == nil {
					j3, err = roundTrip(c.v3, y1, false)
				}
			}) {
				return
			}
			if err != nil {
				d := cloneDetailAny(detail)
				d["error"] = err.Error()
				r.Fail(x, "own-output-does-not-reload", sig, d)
				return
			}
			if CanonJSON(mustJSON(j2)) != CanonJSON(mustJSON(j1)) {
				d := cloneDetailAny(detail)
				d["first"], d["second"] = string(j1), string(j2)
				r.Fail(x, "json-round-trip-not-idempotent", sig, d)
				return
			}
			if CanonJSON(mustJSON(j3)) != CanonJSON(mustJSON(j1)) {
				d := cloneDetailAny(detail)
				d["json"], d["via_yaml"] = string(j1), string(j3)
				d["diff(via yaml vs json)"] = DiffJSON(mustJSON(j3), mustJSON(j1), 5)
				r.Fail(x, "yaml-round-trip-differs", sig, d)
				return
			}
			r.Outcome("round-trips")
		},
	})
}

// c03References is the second family: documents with references. The skeleton document with one reference of
// every kind planted at every position through every loadable graph shape (mc/checks/forest.go) is loaded and
// marshalled: the output must be the input document, every $ref spelled as written, and loading the output
// (next to the same files) must marshal to the same bytes.
func c03References(r *core.Run, x *explore.X) {
	kind := explore.Pick(x, RefKinds)
	var shapes []shapeDef
	for _, s := range shapesFor(kind) {
		switch s.name {
		case "pure-ref-loop", "dangling-internal", "dangling-file", "dangling-fragment-in-file", "wrong-kind-internal", "wrong-kind-in-file", "deep-pointer:additionalProperties/properties/missing":
			continue
		}
		shapes = append(shapes, s)
	}
	shape := explore.Pick(x, shapes)
	pos := explore.Pick(x, positionsOfKind(kind))
	entry := "DataWithPath"
	if !shape.ext && x.Bool() {
		entry = "Data"
	}
	layout := "flat"
	if shape.ext && r.Tier == "thorough" {
		layout = explore.Pick(x, forestLayouts)
	}
	if !r.Own(x) {
		return
	}
	f := BuildForest(kind, shape.name, pos, layout, "plain", entry)
	sig := "references: " + f.Signature()
	r.Case(sig, true)
	detail := map[string]any{"forest": f.Describe()}
	if r.WantSample(x) {
		r.Sample(x, map[string]any{"case": sig})
	}
	var res LoadResult
	var j1 []byte
	var err error
	r.Exec(0)
	if !r.Guard(x, "load+marshal", detail, func() {
		res = LoadForest(f, true, nil)
		if res.Err == nil {
			j1, err = json.Marshal(res.Doc)
		}
	}) {
		r.Outcome("panic")
		return
	}
	if res.Err != nil || err != nil {
		r.Outcome("not-parsed(skipped)")
		r.Count("documents_not_parsed", 1)
		return
	}
	r.Validated(1)
	root := f.Files[f.RootLoc]
	if diffs := DiffJSON(mustJSON(j1), root, 5); len(diffs) > 0 {
		d := cloneDetailAny(detail)
		d["diff(output vs input)"] = diffs
		r.Fail(x, "loses-or-invents:"+c03DiffClass(diffs[0]), sig, d)
		r.Outcome("differs-from-input")
		return
	}
	// the output, put in the place of the root file, loads and marshals to itself
	g := *f
	g.Files = ref.Files{}
	for k, v := range f.Files {
		g.Files[k] = v
	}
	g.Files[f.RootLoc] = mustJSON(j1)
	var j2 []byte
	if !r.Guard(x, "reload", detail, func() {
		res = LoadForest(&g, true, nil)
		err = res.Err
		if err == nil {
			j2, err = json.Marshal(res.Doc)
		}
	}) {
		return
	}
	if err != nil {
		d := cloneDetailAny(detail)
		d["error"] = err.Error()
		r.Fail(x, "own-output-does-not-reload", sig, d)
		return
	}
	if CanonJSON(mustJSON(j2)) != CanonJSON(mustJSON(j1)) {
		d := cloneDetailAny(detail)
		d["first"], d["second"] = string(j1), string(j2)
		r.Fail(x, "json-round-trip-not-idempotent", sig, d)
		return
	}
	r.Outcome("round-trips")
}

func mustJSON(b []byte) any {
	var v any
	json.Unmarshal(b, &v)
	return v
}

func c03DiffClass(d string) string {
	path, note := d, ""
	if i := strings.Index(d, " ("); i > 0 {
		path, note = d[:i], d[i:]
	}
	toks := strings.Split(path, "/")
	if strings.Contains(note, " vs ") {
		note = " (changed)"
	}
	return toks[len(toks)-1] + note
}
