package checks

import (
	"context"
	"encoding/json"
	"fmt"
	"strings"

	"github.com/getkin/kin-openapi/openapi3"

	"verifmc/core"
	"verifmc/explore"
)

// ---- option sets ----

var c04OptionNames = []string{"DisableExamplesValidation", "DisableSchemaDefaultsValidation", "EnableSchemaFormatValidation", "DisableSchemaPatternValidation", "AllowExtraSiblingFields(zz)", "ProhibitExtensionsWithRef"}

func c04Options(mask int) []openapi3.ValidationOption {
	var o []openapi3.ValidationOption
	if mask&1 != 0 {
		o = append(o, openapi3.DisableExamplesValidation())
	}
	if mask&2 != 0 {
		o = append(o, openapi3.DisableSchemaDefaultsValidation())
	}
	if mask&4 != 0 {
		o = append(o, openapi3.EnableSchemaFormatValidation())
	}
	if mask&8 != 0 {
		o = append(o, openapi3.DisableSchemaPatternValidation())
	}
	if mask&16 != 0 {
		o = append(o, openapi3.AllowExtraSiblingFields("zz"))
	}
	if mask&32 != 0 {
		o = append(o, openapi3.ProhibitExtensionsWithRef())
	}
	return o
}

func c04MaskString(mask int) string {
	var on []string
	for i, n := range c04OptionNames {
		if mask&(1<<i) != 0 {
			on = append(on, n)
		}
	}
	if len(on) == 0 {
		return "(none)"
	}
	return strings.Join(on, "+")
}

// ---- rule table ----

// a rule plants exactly one violation at a node of the given kind. gov names the option that governs it:
// "" (always enforced), "examples", "defaults", "pattern" (switched off by the Disable* option),
// "format-on" (enforced only with EnableSchemaFormatValidation), "extra" (switched off by AllowExtraSiblingFields(zz)),
// "extref-on" (enforced only with ProhibitExtensionsWithRef).
type c04Rule struct {
	name string
	kind string // node kind the rule applies to ("root" = the document)
	gov  string
	// apply mutates node (or doc for root rules) and reports whether the rule is applicable there
	apply func(doc map[string]any, node map[string]any, ptr []string) bool
}

func c04Enforced(gov string, mask int) bool {
	switch gov {
	case "examples":
		return mask&1 == 0
	case "defaults":
		return mask&2 == 0
	case "format-on":
		return mask&4 != 0
	case "pattern":
		return mask&8 == 0
	case "extra":
		return mask&16 == 0
	case "extref-on":
		return mask&32 != 0
	}
	return true
}

func isRefNode(n map[string]any) bool { _, ok := n["$ref"]; return ok }

func typ(n map[string]any) string { s, _ := n["type"].(string); return s }

func del(key string) func(map[string]any, map[string]any, []string) bool {
	return func(_ map[string]any, n map[string]any, _ []string) bool {
		if _, ok := n[key]; !ok {
			return false
		}
		delete(n, key)
		return true
	}
}

func set(key string, v any) func(map[string]any, map[string]any, []string) bool {
	return func(_ map[string]any, n map[string]any, _ []string) bool {
		n[key] = v
		return true
	}
}

func setIfHas(has, key string, v any) func(map[string]any, map[string]any, []string) bool {
	return func(_ map[string]any, n map[string]any, _ []string) bool {
		if _, ok := n[has]; !ok {
			return false
		}
		n[key] = v
		return true
	}
}

func renameKey(doc map[string]any, parent []string, old, new string) bool {
	p, ok := GetAt(doc, parent)
	m, ok2 := p.(map[string]any)
	if !ok || !ok2 {
		return false
	}
	v, ok := m[old]
	if !ok {
		return false
	}
	delete(m, old)
	m[new] = v
	return true
}

var c04Rules = []c04Rule{
	// document level
	{"openapi-empty", "root", "", func(d, _ map[string]any, _ []string) bool { d["openapi"] = ""; return true }},
	{"info-missing", "root", "", func(d, _ map[string]any, _ []string) bool { delete(d, "info"); return true }},
	{"info-title-empty", "root", "", func(d, _ map[string]any, _ []string) bool { d["info"].(map[string]any)["title"] = ""; return true }},
	{"info-version-empty", "root", "", func(d, _ map[string]any, _ []string) bool { d["info"].(map[string]any)["version"] = ""; return true }},
	{"license-name-empty", "root", "", func(d, _ map[string]any, _ []string) bool {
		d["info"].(map[string]any)["license"].(map[string]any)["name"] = ""
		return true
	}},
	{"paths-missing", "root", "", func(d, _ map[string]any, _ []string) bool { delete(d, "paths"); return true }},
	{"path-without-leading-slash", "root", "", func(d, _ map[string]any, _ []string) bool {
		return renameKey(d, []string{"paths"}, "/health", "health")
	}},
	{"template-variable-without-parameter", "root", "", func(d, _ map[string]any, _ []string) bool {
		return renameKey(d, []string{"paths"}, "/health", "/health/{zz}")
	}},
	{"path-parameter-without-template-variable", "root", "", func(d, _ map[string]any, _ []string) bool {
		op, _ := GetAt(d, []string{"paths", "/health", "get"})
		op.(map[string]any)["parameters"] = []any{map[string]any{"name": "q", "in": "path", "required": true, "schema": map[string]any{"type": "string"}}}
		return true
	}},
	{"path-parameter-declared-by-an-earlier-operation-only", "root", "", func(d, _ map[string]any, _ []string) bool {
		pp := map[string]any{"name": "m", "in": "path", "required": true, "schema": map[string]any{"type": "string"}}
		ok := map[string]any{"responses": map[string]any{"200": map[string]any{"description": "ok"}}}
		d["paths"].(map[string]any)["/multi/{m}"] = map[string]any{
			"delete": map[string]any{"parameters": []any{pp}, "responses": ok["responses"]},
			"get":    cloneJSON(ok), "put": map[string]any{"parameters": []any{cloneJSON(pp)}, "responses": cloneJSON(ok["responses"])}}
		return true
	}},
	{"path-parameter-declared-by-a-later-operation-only", "root", "", func(d, _ map[string]any, _ []string) bool {
		pp := map[string]any{"name": "m", "in": "path", "required": true, "schema": map[string]any{"type": "string"}}
		ok := map[string]any{"responses": map[string]any{"200": map[string]any{"description": "ok"}}}
		d["paths"].(map[string]any)["/multi/{m}"] = map[string]any{
			"get": cloneJSON(ok), "put": map[string]any{"parameters": []any{pp}, "responses": cloneJSON(ok["responses"])}}
		return true
	}},
	{"template-variable-and-path-parameter-names-differ", "root", "", func(d, _ map[string]any, _ []string) bool {
		return renameKey(d, []string{"paths"}, "/items/{id}", "/items/{idx}")
	}},
	{"conflicting-path-templates", "root", "", func(d, _ map[string]any, _ []string) bool {
		d["paths"].(map[string]any)["/items/{other}"] = map[string]any{
			"parameters": []any{map[string]any{"name": "other", "in": "path", "required": true, "schema": map[string]any{"type": "string"}}},
			"get":        map[string]any{"responses": map[string]any{"200": map[string]any{"description": "ok"}}}}
		return true
	}},
	// the same conflict with a third, harmless template that sorts between the two conflicting ones
	{"conflicting-path-templates:with-a-path-sorting-between-them", "root", "", func(d, _ map[string]any, _ []string) bool {
		mk := func(vars ...string) map[string]any {
			var ps []any
			for _, v := range vars {
				ps = append(ps, map[string]any{"name": v, "in": "path", "required": true, "schema": map[string]any{"type": "string"}})
			}
			return map[string]any{"parameters": ps, "get": map[string]any{"responses": map[string]any{"200": map[string]any{"description": "ok"}}}}
		}
		paths := d["paths"].(map[string]any)
		paths["/items/{id}/parts"] = mk("id") // "/items/{id}" < "/items/{id}/parts" < "/items/{other}"
		paths["/items/{other}"] = mk("other")
		return true
	}},
	{"duplicate-operationId", "root", "", func(d, _ map[string]any, _ []string) bool {
		op, _ := GetAt(d, []string{"paths", "/health", "get"})
		op.(map[string]any)["operationId"] = "getItem"
		return true
	}},
	{"externalDocs-without-url", "root", "", func(d, _ map[string]any, _ []string) bool {
		delete(d["externalDocs"].(map[string]any), "url")
		return true
	}},
	{"tag-externalDocs-without-url", "root", "", func(d, _ map[string]any, _ []string) bool {
		delete(d["tags"].([]any)[0].(map[string]any)["externalDocs"].(map[string]any), "url")
		return true
	}},
	{"server-url-empty", "root", "", func(d, _ map[string]any, _ []string) bool {
		d["servers"].([]any)[0].(map[string]any)["url"] = ""
		return true
	}},
	{"server-variable-not-in-url", "root", "", func(d, _ map[string]any, _ []string) bool {
		d["servers"].([]any)[1].(map[string]any)["variables"].(map[string]any)["extra"] = map[string]any{"default": "x"}
		return true
	}},
	{"server-url-variable-undeclared", "root", "", func(d, _ map[string]any, _ []string) bool {
		delete(d["servers"].([]any)[1].(map[string]any)["variables"].(map[string]any), "base")
		return true
	}},
	// names are compared exactly: a template variable that differs from the declared one by blanks or by case is undeclared
	{"server-url-variable-differs-from-the-declared-one-by-blanks", "root", "", func(d, _ map[string]any, _ []string) bool {
		sv := d["servers"].([]any)[1].(map[string]any)
		sv["url"] = strings.Replace(sv["url"].(string), "{base}", "{ base }", 1)
		return true
	}},
	{"server-url-variable-differs-from-the-declared-one-by-case", "root", "", func(d, _ map[string]any, _ []string) bool {
		sv := d["servers"].([]any)[1].(map[string]any)
		sv["url"] = strings.Replace(sv["url"].(string), "{base}", "{BASE}", 1)
		return true
	}},
	{"server-variable-without-default", "root", "", func(d, _ map[string]any, _ []string) bool {
		delete(d["servers"].([]any)[1].(map[string]any)["variables"].(map[string]any)["base"].(map[string]any), "default")
		return true
	}},
	{"root-extra-field", "root", "extra", func(d, _ map[string]any, _ []string) bool { d["zz"] = 1.0; return true }},
	{"info-extra-field", "root", "extra", func(d, _ map[string]any, _ []string) bool { d["info"].(map[string]any)["zz"] = 1.0; return true }},
	{"components-extra-field", "root", "extra", func(d, _ map[string]any, _ []string) bool { d["components"].(map[string]any)["zz"] = 1.0; return true }},
	{"server-extra-field", "root", "extra", func(d, _ map[string]any, _ []string) bool {
		d["servers"].([]any)[0].(map[string]any)["zz"] = 1.0
		return true
	}},
	{"tag-extra-field", "root", "extra", func(d, _ map[string]any, _ []string) bool {
		d["tags"].([]any)[0].(map[string]any)["zz"] = 1.0
		return true
	}},
	// component names (one per section)
	{"component-name-invalid", "component-section", "", func(d, sec map[string]any, ptr []string) bool {
		for _, k := range sortedKeys(sec) {
			if m, ok := sec[k].(map[string]any); ok && !isRefNode(m) {
				sec["bad name!"] = cloneJSON(m)
				return true
			}
		}
		return false
	}},
	// operations
	{"operation-without-responses", "operation", "", del("responses")},
	{"operation-empty-responses", "operation", "", setIfHas("responses", "responses", map[string]any{})},
	{"operation-extra-field", "operation", "extra", set("zz", 1.0)},
	{"operation-externalDocs-without-url", "operation", "", func(_ map[string]any, n map[string]any, _ []string) bool {
		ed, ok := n["externalDocs"].(map[string]any)
		if !ok {
			return false
		}
		delete(ed, "url")
		return true
	}},
	{"duplicate-parameter-in-list", "operation", "", dupFirstParam},
	{"duplicate-parameter-in-list", "pathItem", "", dupFirstParam},
	// the same duplicate, spelled through references: the same component twice, a reference next to an inline copy (both orders)
	{"duplicate-parameter-in-list:same-reference-twice", "operation", "", dupParamBy("ref", "ref")},
	{"duplicate-parameter-in-list:same-reference-twice", "pathItem", "", dupParamBy("ref", "ref")},
	{"duplicate-parameter-in-list:reference-then-inline", "operation", "", dupParamBy("ref", "inline")},
	{"duplicate-parameter-in-list:reference-then-inline", "pathItem", "", dupParamBy("ref", "inline")},
	{"duplicate-parameter-in-list:inline-then-reference", "operation", "", dupParamBy("inline", "ref")},
	{"duplicate-parameter-in-list:inline-then-reference", "pathItem", "", dupParamBy("inline", "ref")},
	{"pathItem-extra-field", "pathItem", "extra", set("zz", 1.0)},
	// responses
	{"response-without-description", "response", "", del("description")},
	{"response-extra-field", "response", "extra", set("zz", 1.0)},
	// request bodies
	{"requestBody-without-content", "requestBody", "", del("content")},
	{"requestBody-extra-field", "requestBody", "extra", set("zz", 1.0)},
	// media types
	{"mediaType-example-and-examples", "mediaType", "", func(_ map[string]any, n map[string]any, _ []string) bool {
		if _, ok := n["examples"]; !ok {
			return false
		}
		n["example"] = map[string]any{"name": "ab"}
		return true
	}},
	{"mediaType-example-violates-schema", "mediaType", "examples", func(_ map[string]any, n map[string]any, _ []string) bool {
		s, ok := n["schema"].(map[string]any)
		if !ok || isRefNode(s) || typ(s) == "" {
			return false
		}
		delete(n, "examples")
		n["example"] = wrongValueFor(typ(s))
		return true
	}},
	{"mediaType-extra-field", "mediaType", "extra", set("zz", 1.0)},
	// parameters
	{"parameter-name-empty", "parameter", "", func(_ map[string]any, n map[string]any, _ []string) bool {
		if n["in"] == "path" {
			return false // also unbalances the template: not a pure mutation
		}
		n["name"] = ""
		return true
	}},
	{"parameter-in-illegal", "parameter", "", func(_ map[string]any, n map[string]any, _ []string) bool {
		if n["in"] == "path" {
			return false
		}
		n["in"] = "body"
		return true
	}},
	{"path-parameter-not-required", "parameter", "", func(_ map[string]any, n map[string]any, _ []string) bool {
		if n["in"] != "path" {
			return false
		}
		n["required"] = false
		return true
	}},
	{"parameter-style-illegal-for-location", "parameter", "", func(_ map[string]any, n map[string]any, _ []string) bool {
		if _, ok := n["schema"]; !ok {
			return false
		}
		switch n["in"] {
		case "query", "cookie":
			n["style"] = "matrix"
		case "header":
			n["style"] = "form"
		case "path":
			n["style"] = "form"
		}
		return true
	}},
	{"parameter-schema-and-content", "parameter", "", func(_ map[string]any, n map[string]any, _ []string) bool {
		if _, ok := n["schema"]; !ok {
			return false
		}
		n["content"] = map[string]any{"application/json": map[string]any{"schema": map[string]any{"type": "string"}}}
		return true
	}},
	{"parameter-neither-schema-nor-content", "parameter", "", func(_ map[string]any, n map[string]any, _ []string) bool {
		if _, ok := n["schema"]; !ok {
			return false
		}
		delete(n, "schema")
		delete(n, "example")
		delete(n, "examples")
		return true
	}},
	{"parameter-content-two-entries", "parameter", "", func(_ map[string]any, n map[string]any, _ []string) bool {
		c, ok := n["content"].(map[string]any)
		if !ok {
			return false
		}
		c["text/plain"] = map[string]any{"schema": map[string]any{"type": "string"}}
		return true
	}},
	{"parameter-example-and-examples", "parameter", "", func(_ map[string]any, n map[string]any, _ []string) bool {
		if _, ok := n["examples"]; !ok {
			return false
		}
		n["example"] = 5.0
		return true
	}},
	{"parameter-example-violates-schema", "parameter", "examples", func(_ map[string]any, n map[string]any, _ []string) bool {
		s, ok := n["schema"].(map[string]any)
		if !ok || isRefNode(s) || typ(s) == "" {
			return false
		}
		delete(n, "examples")
		n["example"] = wrongValueFor(typ(s))
		return true
	}},
	{"parameter-extra-field", "parameter", "extra", set("zz", 1.0)},
	// headers
	{"header-style-not-simple", "header", "", func(_ map[string]any, n map[string]any, _ []string) bool {
		if _, ok := n["schema"]; !ok {
			return false
		}
		n["style"] = "form"
		return true
	}},
	{"header-schema-and-content", "header", "", func(_ map[string]any, n map[string]any, _ []string) bool {
		if _, ok := n["schema"]; !ok {
			return false
		}
		n["content"] = map[string]any{"application/json": map[string]any{"schema": map[string]any{"type": "string"}}}
		return true
	}},
	{"header-neither-schema-nor-content", "header", "", func(_ map[string]any, n map[string]any, _ []string) bool {
		if _, ok := n["schema"]; !ok {
			return false
		}
		delete(n, "schema")
		delete(n, "example")
		return true
	}},
	{"header-has-name", "header", "", set("name", "X-N")},
	{"header-has-in", "header", "", set("in", "header")},
	// schemas
	{"schema-readOnly-and-writeOnly", "schema", "", func(_ map[string]any, n map[string]any, _ []string) bool {
		n["readOnly"] = true
		n["writeOnly"] = true
		return true
	}},
	{"schema-unknown-type", "schema", "", func(_ map[string]any, n map[string]any, _ []string) bool {
		if typ(n) == "" {
			return false
		}
		for _, k := range []string{"default", "example", "enum", "format"} {
			delete(n, k)
		}
		n["type"] = "strange"
		return true
	}},
	{"schema-array-without-items", "schema", "", func(_ map[string]any, n map[string]any, _ []string) bool {
		if typ(n) != "array" {
			return false
		}
		delete(n, "items")
		return true
	}},
	{"schema-default-violates-schema", "schema", "defaults", func(_ map[string]any, n map[string]any, _ []string) bool {
		if typ(n) == "" {
			return false
		}
		n["default"] = wrongValueFor(typ(n))
		return true
	}},
	{"schema-example-violates-schema", "schema", "examples", func(_ map[string]any, n map[string]any, _ []string) bool {
		if typ(n) == "" {
			return false
		}
		n["example"] = wrongValueFor(typ(n))
		return true
	}},
	{"schema-uncompilable-pattern", "schema", "pattern", func(_ map[string]any, n map[string]any, _ []string) bool {
		if typ(n) != "string" {
			return false
		}
		for _, k := range []string{"default", "example", "enum"} {
			delete(n, k)
		}
		n["pattern"] = "(?!x)["
		return true
	}},
	{"schema-unknown-format", "schema", "format-on", func(_ map[string]any, n map[string]any, _ []string) bool {
		if t := typ(n); t != "string" && t != "integer" && t != "number" {
			return false
		}
		n["format"] = "no-such-format"
		return true
	}},
	{"schema-externalDocs-without-url", "schema", "", set("externalDocs", map[string]any{"description": "d"})},
	{"schema-extra-field", "schema", "extra", set("zz", 1.0)},
	// security schemes
	{"securityScheme-unknown-type", "securityScheme", "", func(_ map[string]any, n map[string]any, _ []string) bool {
		for k := range n {
			if k != "description" {
				delete(n, k)
			}
		}
		n["type"] = "strange"
		return true
	}},
	{"securityScheme-http-without-scheme", "securityScheme", "", func(_ map[string]any, n map[string]any, _ []string) bool {
		if n["type"] != "http" {
			return false
		}
		delete(n, "scheme")
		delete(n, "bearerFormat")
		return true
	}},
	{"securityScheme-apiKey-without-name", "securityScheme", "", func(_ map[string]any, n map[string]any, _ []string) bool {
		if n["type"] != "apiKey" {
			return false
		}
		delete(n, "name")
		return true
	}},
	{"securityScheme-apiKey-in-illegal", "securityScheme", "", func(_ map[string]any, n map[string]any, _ []string) bool {
		if n["type"] != "apiKey" {
			return false
		}
		n["in"] = "body"
		return true
	}},
	{"securityScheme-oauth2-without-flows", "securityScheme", "", func(_ map[string]any, n map[string]any, _ []string) bool {
		if n["type"] != "oauth2" {
			return false
		}
		delete(n, "flows")
		return true
	}},
	{"securityScheme-flow-without-scopes", "securityScheme", "", func(_ map[string]any, n map[string]any, _ []string) bool {
		fl, ok := n["flows"].(map[string]any)
		if !ok {
			return false
		}
		im, ok := fl["implicit"].(map[string]any)
		if !ok {
			return false
		}
		delete(im, "scopes")
		return true
	}},
	{"securityScheme-implicit-without-authorizationUrl", "securityScheme", "", func(_ map[string]any, n map[string]any, _ []string) bool {
		fl, ok := n["flows"].(map[string]any)
		if !ok {
			return false
		}
		im, ok := fl["implicit"].(map[string]any)
		if !ok {
			return false
		}
		delete(im, "authorizationUrl")
		return true
	}},
	{"securityScheme-password-without-tokenUrl", "securityScheme", "", func(_ map[string]any, n map[string]any, _ []string) bool {
		fl, ok := n["flows"].(map[string]any)
		if !ok {
			return false
		}
		pw, ok := fl["password"].(map[string]any)
		if !ok {
			return false
		}
		delete(pw, "tokenUrl")
		return true
	}},
	{"securityScheme-openIdConnect-without-url", "securityScheme", "", func(_ map[string]any, n map[string]any, _ []string) bool {
		if n["type"] != "openIdConnect" {
			return false
		}
		delete(n, "openIdConnectUrl")
		return true
	}},
	{"securityScheme-extra-field", "securityScheme", "extra", set("zz", 1.0)},
	// examples
	{"example-value-and-externalValue", "example", "", func(_ map[string]any, n map[string]any, _ []string) bool {
		if _, ok := n["value"]; !ok {
			return false
		}
		n["externalValue"] = "https://e.example/v"
		return true
	}},
	// references with siblings
	{"ref-with-extra-sibling", "ref", "extra", set("zz", 1.0)},
	{"ref-with-extension-sibling", "ref", "extref-on", set("x-e", 1.0)},
}

func dupFirstParam(_ map[string]any, n map[string]any, _ []string) bool {
	l, ok := n["parameters"].([]any)
	if !ok || len(l) == 0 {
		return false
	}
	for _, p := range l {
		if m, ok := p.(map[string]any); ok && !isRefNode(m) && m["in"] != "path" {
			n["parameters"] = append(l, cloneJSON(m))
			return true
		}
	}
	return false
}

// dupParamBy appends two entries that both denote the component parameter Trace (header X-Trace).
func dupParamBy(first, second string) func(_ map[string]any, n map[string]any, _ []string) bool {
	entry := func(how string) any {
		if how == "ref" {
			return map[string]any{"$ref": "#/components/parameters/Trace"}
		}
		return map[string]any{"in": "header", "name": "X-Trace", "schema": map[string]any{"type": "string"}}
	}
	return func(_ map[string]any, n map[string]any, _ []string) bool {
		l, _ := n["parameters"].([]any)
		for _, p := range l {
			if m, ok := p.(map[string]any); ok {
				if r, _ := m["$ref"].(string); strings.Contains(r, "Trace") || m["name"] == "X-Trace" {
					return false // the list already carries X-Trace: another rule's case
				}
			}
		}
		n["parameters"] = append(append([]any{}, l...), entry(first), entry(second))
		return true
	}
}

func wrongValueFor(t string) any {
	switch t {
	case "string":
		return 5.0
	case "integer", "number", "boolean":
		return "wrong"
	case "array":
		return "wrong"
	case "object":
		return "wrong"
	}
	return nil
}

// c04Locations lists the nodes a rule of the given kind is planted at.
func c04Locations(doc map[string]any, kind string) [][]string {
	excluded := func(ptr []string) bool {
		for _, t := range ptr {
			if t == "callbacks" || t == "links" || t == "encoding" {
				return true
			}
		}
		return false
	}
	var out [][]string
	switch kind {
	case "root":
		return [][]string{{}}
	case "component-section":
		comps, _ := doc["components"].(map[string]any)
		for _, sec := range sortedKeys(comps) {
			if _, ok := componentKinds[sec]; ok && sec != "callbacks" && sec != "links" {
				out = append(out, []string{"components", sec})
			}
		}
		return out
	}
	for _, p := range PositionsAll(doc) {
		if excluded(p.Ptr) {
			continue
		}
		n, _ := GetAt(doc, p.Ptr)
		m, ok := n.(map[string]any)
		if !ok {
			continue
		}
		if kind == "ref" {
			if isRefNode(m) && p.Kind != "pathItem" {
				out = append(out, p.Ptr)
			}
			continue
		}
		if p.Kind == kind && !isRefNode(m) {
			out = append(out, p.Ptr)
		}
	}
	return out
}

// legal oddities (thorough tier): each keeps the skeleton conforming; a planted violation must be found next to any of them
var c04Oddities = []struct {
	name  string
	apply func(d map[string]any)
}{
	{"root extension", func(d map[string]any) { d["x-top"] = m("a", l(1.0, "b")) }},
	{"no servers", func(d map[string]any) { delete(d, "servers") }},
	{"no tags and no externalDocs", func(d map[string]any) { delete(d, "tags"); delete(d, "externalDocs") }},
	{"unused component schema with compositions", func(d map[string]any) {
		addComponent(d, "schemas", "Unused", m("allOf", l(m("type", "object", "properties", m("u", m("type", "string", "nullable", true))), m("anyOf", l(m("type", "object"), m("not", m("type", "string")))))))
	}},
	{"second minimal path", func(d map[string]any) {
		d["paths"].(map[string]any)["/other"] = m("get", m("operationId", "other", "responses", m("204", m("description", "no content"))))
	}},
	{"operation without security", func(d map[string]any) {
		op, _ := GetAt(d, []string{"paths", "/health", "get"})
		op.(map[string]any)["security"] = l()
	}},
	{"no document security", func(d map[string]any) { delete(d, "security") }},
	{"path item extension and operation extension", func(d map[string]any) {
		pi, _ := GetAt(d, []string{"paths", "/health"})
		pi.(map[string]any)["x-pi"] = true
		op, _ := GetAt(d, []string{"paths", "/health", "get"})
		op.(map[string]any)["x-op"] = m("k", "v")
	}},
}

func init() {
	type loc struct {
		rule int
		ptr  []string
	}
	var cases []loc
	prep := func() {
		if cases != nil {
			return
		}
		sk := Skeleton()
		for i, rule := range c04Rules {
			for _, ptr := range c04Locations(sk, rule.kind) {
				cases = append(cases, loc{i, ptr})
			}
		}
	}
	core.Register(&core.Check{
		ID: "C04",
		Rule: "the conforming skeleton document must be accepted under all 64 combinations of the six validation options; then, for each of 78 rule mutations (one planted violation each: document level, operations, responses, request bodies, media types, parameters, headers, schemas incl. nested ones, security schemes, servers, component names, extra fields, $ref siblings) " +
			"x every location where the rule's subject occurs inline (callbacks, links and encodings excluded, as the property lists them as not reachable) x all 64 option sets: the mutated document must be rejected iff no enabled option governs the rule. non-trivial = every mutated case",
		Assumptions: []string{
			"rule table mc/checks/c04.go: each mutation is pure (introduces exactly one violation) and names the only option that governs it",
			"a mutated document that already fails to load counts as rejected",
			"the skeleton (design/skeleton.json) conforms to every enforced rule",
		},
		Bounds: func(tier string) map[string]any {
			prep()
			return map[string]any{"rules": len(c04Rules), "rule_x_location_cases": len(cases), "option_sets": 64, "violations_per_document": 1}
		},
		MinOutcomes:   3,
		ShrinkVectors: true,
		Body: func(r *core.Run, x *explore.X) {
			prep()
			ci := x.Choose(len(cases) + 1)
			odd := 0
			if r.Tier == "thorough" {
				odd = x.Choose(len(c04Oddities) + 1)
			}
			if !r.Own(x) {
				return
			}
			doc := Skeleton()
			if odd > 0 {
				c04Oddities[odd-1].apply(doc)
			}
			name, gov, where := "skeleton", "", ""
			if ci > 0 {
				c := cases[ci-1]
				rule := c04Rules[c.rule]
				var node map[string]any
				if len(c.ptr) > 0 {
					n, _ := GetAt(doc, c.ptr)
					node, _ = n.(map[string]any)
				}
				applied := func() (ok bool) {
					defer func() {
						if recover() != nil {
							ok = false // the rule's subject is not there (removed by the oddity): not applicable
						}
					}()
					return rule.apply(doc, node, c.ptr)
				}()
				if !applied {
					r.Outcome("rule-not-applicable-here")
					return
				}
				name, gov, where = rule.name, rule.gov, PtrString(c.ptr)
			}
			sig := fmt.Sprintf("rule=%s at=%s", name, locClass(where))
			if odd > 0 {
				sig += " next to: " + c04Oddities[odd-1].name
			}
			data, _ := json.Marshal(doc)
			if r.WantSample(x) {
				r.Sample(x, map[string]any{"rule": name, "governed_by": gov, "location": where})
			}
			detail := map[string]any{"rule": name, "governed_by": gov, "location": where}
			if ci > 0 {
				n, _ := GetAt(doc, cases[ci-1].ptr)
				detail["mutated_node"] = CanonJSON(n)
				if len(CanonJSON(n)) > 600 {
					detail["mutated_node"] = CanonJSON(n)[:600]
				}
			}
			var loaded *openapi3.T
			var lerr error
			r.Exec(0)
			if !r.Guard(x, "Load", detail, func() { loaded, lerr = openapi3.NewLoader().LoadFromData(data) }) {
				return
			}
			for mask := 0; mask < 64; mask++ {
				want := ci > 0 && c04Enforced(gov, mask) // want rejection
				rejected := lerr != nil
				var verr error
				if lerr == nil {
					m := mask
					r.Exec(0)
					if !r.Guard(x, "Validate", detail, func() { verr = loaded.Validate(context.Background(), c04Options(m)...) }) {
						return
					}
					rejected = verr != nil
				}
				r.Case(fmt.Sprintf("%s|%s|%d|%d", name, where, mask, odd), ci > 0)
				if gov == "pattern" && mask&8 != 0 && mask&1 == 0 {
					// pattern validation is off but examples validation is on: an example of an enclosing object is still checked
					// against the pattern that cannot be compiled; the property does not say which option owns that, so the oracle abstains
					r.Abstain(1)
					continue
				}
				r.Validated(1)
				r.Outcome(fmt.Sprintf("want_reject=%v rejected=%v", want, rejected))
				if rejected != want {
					d := cloneDetailAny(detail)
					d["options"] = c04MaskString(mask)
					clause := "accepts-violation"
					if !want {
						clause = "rejects-conforming"
						if verr != nil {
							d["error"] = verr.Error()
						} else if lerr != nil {
							d["error"] = "load: " + lerr.Error()
						}
						if ci > 0 {
							clause = "option-does-not-switch-off-its-check"
						}
					}
					d["first_failing_option_set"] = c04MaskString(mask)
					// the rule and the class of the place are the violation's identity: shrinking stays within them
					r.Fail(x, clause+":"+name+" at="+locClass(where), fmt.Sprintf("%s options=%s", sig, c04MaskString(mask&(c04Relevant(gov)|1))), d)
					if ci > 0 {
						break // one report per case: the other option sets repeat it
					}
				}
			}
		},
	})
}

// locClass abstracts a pointer to its structural class: member names of named collections become *.
func locClass(ptr string) string {
	toks := strings.Split(ptr, "/")
	named := map[string]bool{"properties": true, "schemas": true, "parameters": true, "responses": true, "content": true, "headers": true, "examples": true, "paths": true,
		"requestBodies": true, "securitySchemes": true, "callbacks": true, "links": true, "allOf": true, "anyOf": true, "oneOf": true, "encoding": true, "variables": true, "servers": true, "tags": true}
	for i := 1; i < len(toks); i++ {
		if named[toks[i-1]] && !(toks[i-1] == "parameters" && i >= 2 && toks[i-2] == "components" && false) {
			toks[i] = "*"
		}
	}
	// keep only the last four tokens: the violation's immediate context
	if len(toks) > 5 {
		toks = append([]string{"..."}, toks[len(toks)-4:]...)
	}
	return strings.Join(toks, "/")
}

// c04Relevant masks the option bits that matter for a rule (keeps signatures independent of unrelated options).
func c04Relevant(gov string) int {
	switch gov {
	case "examples":
		return 1
	case "defaults":
		return 2
	case "format-on":
		return 4
	case "pattern":
		return 8
	case "extra":
		return 16
	case "extref-on":
		return 32
	}
	return 0
}

func cloneDetailAny(d map[string]any) map[string]any {
	out := map[string]any{}
	for k, v := range d {
		out[k] = v
	}
	return out
}
