package checks

import (
	"bytes"
	"context"
	"encoding/json"
	"errors"
	"fmt"
	"net/http"
	"sort"
	"strings"

	"github.com/getkin/kin-openapi/openapi3"
	"github.com/getkin/kin-openapi/openapi3filter"
	"github.com/getkin/kin-openapi/routers"

	"verifmc/core"
	"verifmc/explore"
)

// security lists: nil = field absent
var c07SecLists = []struct {
	name string
	val  any
}{
	{"absent", nil},
	{"[]", l()},
	{"[{}]", l(m())},
	{"[{A}]", l(m("A", l()))},
	{"[{A,B}]", l(m("A", l(), "B", l("s")))},
	{"[{A},{B}]", l(m("A", l()), m("B", l()))},
	{"[{A},{}]", l(m("A", l()), m())},
	{"[{B,A},{A}]", l(m("B", l(), "A", l()), m("A", l()))},
}

type c07Case struct {
	opSec, docSec   int
	authFunc        bool
	pathQ1, pathH1  bool
	opQ1, opQ2      bool
	opH1Query       bool // operation declares a *query* parameter called h1 (same name as the path-level header, other location)
	opQ1Header      bool // operation declares an optional *header* parameter called q1 (same name as the query parameters, other location)
	opReversed      bool // the operation's parameter list in reverse order
	q1, h1, q2      int  // 0 absent, then value index
	body            int  // 0 undeclared, 1 valid, 2 invalid, 3 declared but missing
	multi, exBody   bool
	exQuery         bool
}

var c07Q1Values = []string{"", "5", "x", "ab"}
var c07H1Values = []string{"", "7", "zz"}
var c07Q2Values = []string{"", "3", "zz"}

func (c c07Case) sig() string {
	return fmt.Sprintf("opSecurity=%s docSecurity=%s authFunc=%v pathParams{q1:%v,h1:%v} opParams{q1:%v,q2:%v,h1-in-query:%v,q1-in-header:%v,reversed:%v} request{q1=%q,h1=%q,q2=%q,body=%d} MultiError=%v ExcludeRequestBody=%v ExcludeRequestQueryParams=%v",
		c07SecLists[c.opSec].name, c07SecLists[c.docSec].name, c.authFunc, c.pathQ1, c.pathH1, c.opQ1, c.opQ2, c.opH1Query, c.opQ1Header, c.opReversed, c07Q1Values[c.q1], c07H1Values[c.h1], c07Q2Values[c.q2], c.body, c.multi, c.exBody, c.exQuery)
}

func (c c07Case) document() map[string]any {
	op := m("responses", m("200", m("description", "ok")))
	if v := c07SecLists[c.opSec].val; v != nil {
		op["security"] = v
	}
	var opParams []any
	if c.opQ1 {
		opParams = append(opParams, m("name", "q1", "in", "query", "schema", m("type", "string", "minLength", 2.0)))
	}
	if c.opQ2 {
		opParams = append(opParams, m("name", "q2", "in", "query", "schema", m("type", "integer")))
	}
	if c.opH1Query {
		opParams = append(opParams, m("name", "h1", "in", "query", "schema", m("type", "string")))
	}
	if c.opQ1Header {
		opParams = append(opParams, m("name", "q1", "in", "header", "schema", m("type", "string")))
	}
	if c.opReversed {
		for i, j := 0, len(opParams)-1; i < j; i, j = i+1, j-1 {
			opParams[i], opParams[j] = opParams[j], opParams[i]
		}
	}
	if opParams != nil {
		op["parameters"] = opParams
	}
	if c.body != 0 {
		op["requestBody"] = m("required", true, "content", m("application/json", m("schema", m("type", "object", "properties", m("n", m("type", "integer")), "required", l("n")))))
	}
	pi := m("post", op)
	var pParams []any
	if c.pathQ1 {
		pParams = append(pParams, m("name", "q1", "in", "query", "required", true, "schema", m("type", "integer")))
	}
	if c.pathH1 {
		pParams = append(pParams, m("name", "h1", "in", "header", "required", true, "schema", m("type", "integer")))
	}
	if pParams != nil {
		pi["parameters"] = pParams
	}
	doc := m("openapi", "3.0.3", "info", m("title", "t", "version", "1"), "paths", m("/r", pi),
		"components", m("securitySchemes", m("A", m("type", "http", "scheme", "basic"), "B", m("type", "apiKey", "name", "k", "in", "header"))))
	if v := c07SecLists[c.docSec].val; v != nil {
		doc["security"] = v
	}
	return doc
}

// model: which parts fail, and the expected callback log given the callback's answers
type c07Expect struct {
	parts []string // sorted multiset of failing parts
}

func c07Model(c c07Case, answer func(scheme string) bool) (parts []string, log []string) {
	// security
	sec := c07SecLists[c.opSec].val
	if sec == nil {
		sec = c07SecLists[c.docSec].val
	}
	if list, ok := sec.([]any); ok && len(list) > 0 {
		// some requirement has all of its schemes accepted; which schemes are asked, in which order and whether the
		// search stops early is the implementation's business: log lists the schemes that may be asked at all
		passed := false
		for _, rq := range list {
			req := rq.(map[string]any)
			ok := true
			for _, n := range sortedKeys(req) {
				log = append(log, n)
				if !c.authFunc || !answer(n) {
					ok = false
				}
			}
			if ok {
				passed = true
			}
		}
		if !passed {
			parts = append(parts, "security")
		}
	}
	// parameters in effect
	type par struct {
		in, name string
		bad      bool
	}
	var ps []par
	q1 := c07Q1Values[c.q1]
	if c.opQ1 {
		ps = append(ps, par{"query", "q1", q1 != "" && len(q1) < 2})
	} else if c.pathQ1 {
		ps = append(ps, par{"query", "q1", q1 != "5"})
	}
	if c.pathH1 {
		ps = append(ps, par{"header", "h1", c07H1Values[c.h1] != "7"})
	}
	if c.opQ2 {
		ps = append(ps, par{"query", "q2", c07Q2Values[c.q2] == "zz"})
	}
	if c.opH1Query {
		ps = append(ps, par{"query", "h1", false}) // any string (or absence) is fine
	}
	if c.opQ1Header {
		ps = append(ps, par{"header", "q1", false}) // optional string, never sent
	}
	for _, p := range ps {
		if p.in == "query" && c.exQuery {
			continue
		}
		if p.bad {
			parts = append(parts, "param:"+p.in+":"+p.name)
		}
	}
	if c.body >= 2 && !c.exBody {
		parts = append(parts, "body")
	}
	sort.Strings(parts)
	return parts, log
}

func c07Parts(err error) []string {
	var out []string
	var walk func(e error)
	walk = func(e error) {
		switch v := e.(type) {
		case nil:
		case openapi3.MultiError:
			for _, m := range v {
				walk(m)
			}
		case *openapi3filter.SecurityRequirementsError:
			out = append(out, "security")
		case *openapi3filter.RequestError:
			switch {
			case v.Parameter != nil:
				out = append(out, "param:"+v.Parameter.In+":"+v.Parameter.Name)
			case v.RequestBody != nil:
				out = append(out, "body")
			default:
				out = append(out, "other-request-error")
			}
		default:
			out = append(out, fmt.Sprintf("other:%T", e))
		}
	}
	walk(err)
	sort.Strings(out)
	return out
}

func init() {
	core.Register(&core.Check{
		ID: "C07",
		Rule: "operation security in {absent, [], [{}], [{A}], [{A,B}], [{A},{B}], [{A},{}], [{B,A},{A}]} (document security from the same set when the operation declares none) x AuthenticationFunc nil/set with both answers explored for every scheme in effect (the answer is a function of the scheme) " +
			"x path-level parameters subset of {q1 required integer query, h1 required integer header} x operation parameters subset of {q1 string override, q2 optional integer, h1 as a query parameter, q1 as a header parameter (same name, other location)}, the operation's list in both orders x request values (absent/valid/invalid per parameter) x body {undeclared, valid, invalid, missing} " +
			"x MultiError x ExcludeRequestBody x ExcludeRequestQueryParams. Truth-table model gives pass/fail, the multiset of failing parts (multi-error mode) and the set of schemes the callback may be asked about. non-trivial = at least one part is declared",
		Assumptions: []string{
			"truth-table model in mc/checks/c07.go follows the property statement: effective security, effective parameters (override by name AND location), exclusions, empty list/requirement need no authentication",
			"in fail-first mode only pass/fail is compared; the identity of failing parts only in multi-error mode",
			"the authentication callback answers per scheme (both answers for each of the two schemes are explored); the order in which schemes are asked and whether the search stops early is not asserted, only that nothing outside the requirements in effect is asked",
		},
		Bounds:        func(tier string) map[string]any { return map[string]any{"security_lists": len(c07SecLists), "schemes": 2, "parameters": 5, "option_sets": 8} },
		MinOutcomes:   2,
		ShrinkVectors: true,
		Body: func(r *core.Run, x *explore.X) {
			var c c07Case
			c.opSec = x.Choose(len(c07SecLists))
			if c.opSec == 0 {
				c.docSec = x.Choose(len(c07SecLists))
			} else if r.Tier == "thorough" {
				c.docSec = x.Choose(len(c07SecLists)) // an operation-level list (even an empty one) overrides whatever the document declares
			} else if x.Bool() {
				c.docSec = 3 // quick: overridden document-level [{A}]
			}
			c.authFunc = !x.Bool()
			c.pathQ1, c.pathH1 = x.Bool(), x.Bool()
			c.opQ1, c.opQ2, c.opH1Query = x.Bool(), x.Bool(), x.Bool()
			c.opQ1Header = x.Bool()
			if c.opQ1Header || (c.opQ1 && c.opH1Query) {
				c.opReversed = x.Bool() // the order of the operation's list matters only next to same-named neighbours
			}
			if c.pathQ1 || c.opQ1 {
				c.q1 = x.Choose(len(c07Q1Values))
			}
			if c.pathH1 {
				c.h1 = x.Choose(len(c07H1Values))
			}
			if c.opQ2 {
				c.q2 = x.Choose(len(c07Q2Values))
			}
			c.body = x.Choose(4)
			c.multi, c.exBody, c.exQuery = x.Bool(), x.Bool(), x.Bool()
			if !r.Own(x) {
				return
			}
			if r.Tier != "thorough" && (c.opH1Query || c.opQ1Header) && (c.opQ2 || c.q1 > 1 || (c.opH1Query && c.opQ1Header)) {
				return // quick tier: the same-name-other-location parameters only in their simplest surroundings
			}
			docJSON, _ := json.Marshal(c.document())
			doc, err := openapi3.NewLoader().LoadFromData(docJSON)
			if err != nil {
				panic(err)
			}
			sig := c.sig()
			if err := doc.Validate(context.Background()); err != nil {
				r.Outcome("document-invalid(skipped)")
				return
			}
			pi := doc.Paths.Find("/r")
			route := &routers.Route{Spec: doc, Path: "/r", PathItem: pi, Method: "POST", Operation: pi.Post}
			q := []string{}
			if v := c07Q1Values[c.q1]; v != "" {
				q = append(q, "q1="+v)
			}
			if v := c07Q2Values[c.q2]; v != "" {
				q = append(q, "q2="+v)
			}
			var body []byte
			switch c.body {
			case 1:
				body = []byte(`{"n":1}`)
			case 2:
				body = []byte(`{"n":"x"}`)
			}
			var req *http.Request
			if body != nil {
				req, _ = http.NewRequest("POST", "http://h.example/r?"+strings.Join(q, "&"), bytes.NewReader(body))
				req.Header.Set("Content-Type", "application/json")
			} else {
				req, _ = http.NewRequest("POST", "http://h.example/r?"+strings.Join(q, "&"), nil)
			}
			if v := c07H1Values[c.h1]; v != "" {
				req.Header.Set("h1", v)
			}
			// the callback's answer is a function of the scheme, fixed before the call (the verdict must not depend on
			// the order in which schemes are asked)
			accepts := map[string]bool{"A": true, "B": true}
			if c.authFunc {
				_, inEffect := c07Model(c, func(string) bool { return true })
				for _, n := range []string{"A", "B"} {
					for _, e := range inEffect {
						if e == n {
							accepts[n] = x.Choose(2) == 0
							break
						}
					}
				}
			}
			var log []string
			opts := &openapi3filter.Options{MultiError: c.multi, ExcludeRequestBody: c.exBody, ExcludeRequestQueryParams: c.exQuery}
			if c.authFunc {
				opts.AuthenticationFunc = func(_ context.Context, ai *openapi3filter.AuthenticationInput) error {
					log = append(log, ai.SecuritySchemeName)
					if !accepts[ai.SecuritySchemeName] {
						return errors.New("rejected by the harness")
					}
					return nil
				}
			}
			in := &openapi3filter.RequestValidationInput{Request: req, Route: route, Options: opts}
			detail := map[string]any{"case": sig, "document": string(docJSON), "url": req.URL.String(), "body": string(body)}
			var verr error
			r.Exec(0)
			if !r.Guard(x, "ValidateRequest", detail, func() { verr = openapi3filter.ValidateRequest(context.Background(), in) }) {
				return
			}
			wantParts, wantLog := c07Model(c, func(s string) bool { return accepts[s] })
			r.Case(fmt.Sprintf("%s|%v", sig, x.Choices()), c.opSec+c.docSec > 0 || c.pathQ1 || c.pathH1 || c.opQ1 || c.opQ2 || c.body > 0)
			r.Validated(1)
			if r.WantSample(x) {
				r.Sample(x, map[string]any{"case": sig, "expected_failing_parts": wantParts, "expected_callback_log": wantLog})
			}
			gotParts := c07Parts(verr)
			r.Outcome(fmt.Sprintf("want_pass=%v pass=%v", len(wantParts) == 0, verr == nil))
			fail := func(clause string) {
				d := cloneDetailAny(detail)
				d["expected_failing_parts"], d["reported_parts"] = wantParts, gotParts
				d["expected_callback_log"], d["callback_log"] = wantLog, log
				if verr != nil {
					d["error"] = verr.Error()
				}
				r.Fail(x, clause, sig, d)
			}
			if (verr == nil) != (len(wantParts) == 0) {
				if verr == nil {
					fail("accepts-request-with-failing-part:" + strings.Join(wantParts, ","))
				} else {
					fail("rejects-request-whose-parts-all-pass:" + strings.Join(gotParts, ","))
				}
				return
			}
			if c.multi && strings.Join(gotParts, ",") != strings.Join(wantParts, ",") {
				fail("multi-error-parts-differ:" + partsDiff(wantParts, gotParts))
				return
			}
			// the callback is only ever asked about schemes of the security requirements in effect
			allowed := map[string]bool{}
			for _, n := range wantLog {
				allowed[n] = true
			}
			for _, n := range log {
				if !allowed[n] {
					fail("authentication-callback-asked-about-a-scheme-not-in-effect:" + n)
					break
				}
			}
		},
	})
}

// partsDiff names what is reported but not expected and what is expected but not reported.
func partsDiff(want, got []string) string {
	cnt := map[string]int{}
	for _, w := range want {
		cnt[w]++
	}
	for _, g := range got {
		cnt[g]--
	}
	var extra, missing []string
	for _, k := range sortedKeys(cnt) {
		switch {
		case cnt[k] < 0:
			extra = append(extra, k)
		case cnt[k] > 0:
			missing = append(missing, k)
		}
	}
	return "unexpected=[" + strings.Join(extra, ",") + "] missing=[" + strings.Join(missing, ",") + "]"
}
