package checks

import (
	"context"
	"encoding/json"
	"fmt"
	"math"
	"reflect"
	"time"

	"github.com/getkin/kin-openapi/openapi3"
	"github.com/getkin/kin-openapi/openapi3gen"

	"verifmc/core"
	"verifmc/explore"
)

var c18Leaves = []reflect.Type{
	reflect.TypeOf(false), reflect.TypeOf(int(0)), reflect.TypeOf(int8(0)), reflect.TypeOf(int16(0)), reflect.TypeOf(int32(0)), reflect.TypeOf(int64(0)),
	reflect.TypeOf(uint(0)), reflect.TypeOf(uint8(0)), reflect.TypeOf(uint16(0)), reflect.TypeOf(uint32(0)), reflect.TypeOf(uint64(0)),
	reflect.TypeOf(float32(0)), reflect.TypeOf(float64(0)), reflect.TypeOf(""), reflect.TypeOf([]byte(nil)), reflect.TypeOf(time.Time{}),
}

// the reduced leaf set used inside structs
var c18FieldLeaves = []reflect.Type{reflect.TypeOf(false), reflect.TypeOf(int(0)), reflect.TypeOf(uint8(0)), reflect.TypeOf(float64(0)), reflect.TypeOf(""), reflect.TypeOf([]byte(nil)), reflect.TypeOf(time.Time{})}

// the leaf set of the 3-constructor family of the thorough tier
var c18DeepLeaves = []reflect.Type{reflect.TypeOf(int(0)), reflect.TypeOf(""), reflect.TypeOf(time.Time{})}
var c18Deep bool

var c18TagsA = []reflect.StructTag{`json:"a"`, ``}
var c18TagsB = []reflect.StructTag{`json:"b,omitempty"`, `json:"-"`, `json:"a2"`}

// genType enumerates the unnamed types of the grammar within a budget of constructors (struct and unary constructors cost 1, leaves 0).
func c18GenType(x *explore.X, budget *int, inStruct bool) reflect.Type {
	leaves := c18Leaves
	if inStruct {
		leaves = c18FieldLeaves
	}
	if c18Deep {
		leaves = c18DeepLeaves
	}
	kinds := 1 // leaf
	if *budget > 0 {
		kinds = 6 // leaf, ptr, slice, map, struct1, struct2
	}
	switch x.Choose(kinds) {
	case 0:
		return explore.Pick(x, leaves)
	case 1:
		*budget--
		return reflect.PointerTo(c18GenType(x, budget, inStruct))
	case 2:
		*budget--
		return reflect.SliceOf(c18GenType(x, budget, inStruct))
	case 3:
		*budget--
		return reflect.MapOf(reflect.TypeOf(""), c18GenType(x, budget, inStruct))
	case 4:
		*budget--
		tag := explore.Pick(x, append(append([]reflect.StructTag{}, c18TagsA...), c18TagsB[:2]...))
		return reflect.StructOf([]reflect.StructField{{Name: "A", Type: c18GenType(x, budget, true), Tag: tag}})
	default:
		*budget--
		ta := explore.Pick(x, c18TagsA)
		a := c18GenType(x, budget, true)
		tb := explore.Pick(x, c18TagsB)
		b := c18GenType(x, budget, true)
		return reflect.StructOf([]reflect.StructField{{Name: "A", Type: a, Tag: ta}, {Name: "B", Type: b, Tag: tb}})
	}
}

var c18DeepTypes []reflect.Type

func c18DeepFieldTypes() []reflect.Type {
	if c18DeepTypes != nil {
		return c18DeepTypes
	}
	unary := []func(reflect.Type) reflect.Type{reflect.PointerTo, reflect.SliceOf, func(t reflect.Type) reflect.Type { return reflect.MapOf(reflect.TypeOf(""), t) }}
	level := []reflect.Type{reflect.TypeOf(0), reflect.TypeOf(""), reflect.TypeOf(false)}
	for depth := 0; depth < 2; depth++ {
		var next []reflect.Type
		for _, t := range level {
			for _, u := range unary {
				next = append(next, u(t))
			}
		}
		c18DeepTypes = append(c18DeepTypes, next...)
		level = next
	}
	return c18DeepTypes
}

// c18Values returns boundary values of t; collections are non-nil; "one field varies" for structs.
func c18Values(t reflect.Type, depth int) []reflect.Value {
	mk := func(vs ...any) []reflect.Value {
		out := make([]reflect.Value, len(vs))
		for i, v := range vs {
			out[i] = reflect.ValueOf(v).Convert(t)
		}
		return out
	}
	switch t.Kind() {
	case reflect.Bool:
		return mk(false, true)
	case reflect.Int:
		return mk(0, -1, math.MaxInt64, math.MinInt64)
	case reflect.Int8:
		return mk(int8(0), int8(-1), int8(math.MaxInt8), int8(math.MinInt8))
	case reflect.Int16:
		return mk(int16(0), int16(math.MaxInt16), int16(math.MinInt16))
	case reflect.Int32:
		return mk(int32(0), int32(math.MaxInt32), int32(math.MinInt32))
	case reflect.Int64:
		return mk(int64(0), int64(-1), int64(math.MaxInt64), int64(math.MinInt64))
	case reflect.Uint:
		return mk(uint(0), uint(math.MaxUint64))
	case reflect.Uint8:
		return mk(uint8(0), uint8(math.MaxUint8))
	case reflect.Uint16:
		return mk(uint16(0), uint16(math.MaxUint16))
	case reflect.Uint32:
		return mk(uint32(0), uint32(math.MaxUint32))
	case reflect.Uint64:
		return mk(uint64(0), uint64(math.MaxUint64))
	case reflect.Float32:
		return mk(float32(0), float32(1.5), float32(math.MaxFloat32), float32(-1))
	case reflect.Float64:
		return mk(0.0, 1.5, math.MaxFloat64, -0.5, math.Copysign(0, -1))
	case reflect.String:
		return mk("", "a", "ä\n\"")
	case reflect.Slice:
		if t.Elem().Kind() == reflect.Uint8 {
			return []reflect.Value{reflect.ValueOf([]byte{}), reflect.ValueOf([]byte{1, 2, 255})}
		}
		ev := c18Values(t.Elem(), depth+1)
		out := []reflect.Value{reflect.MakeSlice(t, 0, 0)}
		one := reflect.MakeSlice(t, 1, 1)
		one.Index(0).Set(ev[0])
		out = append(out, one)
		if len(ev) > 1 {
			two := reflect.MakeSlice(t, 2, 2)
			two.Index(0).Set(ev[1])
			two.Index(1).Set(ev[len(ev)-1])
			out = append(out, two)
		}
		return out
	case reflect.Map:
		ev := c18Values(t.Elem(), depth+1)
		out := []reflect.Value{reflect.MakeMap(t)}
		m1 := reflect.MakeMap(t)
		m1.SetMapIndex(reflect.ValueOf("k"), ev[0])
		out = append(out, m1)
		if len(ev) > 1 {
			m2 := reflect.MakeMap(t)
			m2.SetMapIndex(reflect.ValueOf("k"), ev[1])
			m2.SetMapIndex(reflect.ValueOf("j"), ev[len(ev)-1])
			out = append(out, m2)
		}
		return out
	case reflect.Ptr:
		out := []reflect.Value{reflect.Zero(t)}
		for i, v := range c18Values(t.Elem(), depth+1) {
			if i > 1 {
				break
			}
			p := reflect.New(t.Elem())
			p.Elem().Set(v)
			out = append(out, p)
		}
		return out
	case reflect.Struct:
		if t == reflect.TypeOf(time.Time{}) {
			return []reflect.Value{reflect.ValueOf(time.Time{}), reflect.ValueOf(time.Date(2020, 1, 2, 3, 4, 5, 123456789, time.FixedZone("x", 3600)))}
		}
		base := reflect.New(t).Elem()
		var fvals [][]reflect.Value
		for i := 0; i < t.NumField(); i++ {
			fv := c18Values(t.Field(i).Type, depth+1)
			fvals = append(fvals, fv)
			base.Field(i).Set(fv[0])
		}
		out := []reflect.Value{base}
		for i := range fvals {
			for _, v := range fvals[i][1:] {
				c := reflect.New(t).Elem()
				c.Set(base)
				c.Field(i).Set(v)
				out = append(out, c)
			}
		}
		return out
	}
	panic("kind " + t.Kind().String())
}

// c18Check generates the schema for the value's type and validates the value's JSON against it. It returns a violation clause or "".
func c18Check(value any, opts []openapi3gen.Option) (clause string, detail map[string]any) {
	detail = map[string]any{"go_type": fmt.Sprintf("%T", value)}
	enc, err := json.Marshal(value)
	if err != nil {
		return "", nil // not encodable: outside the property
	}
	if string(enc) == "null" {
		return "", nil // the value itself encodes as null: excluded by the property
	}
	detail["json"] = string(enc)
	schemas := openapi3.Schemas{}
	ref, err := openapi3gen.NewSchemaRefForValue(value, schemas, opts...)
	if err != nil {
		detail["error"] = err.Error()
		return "generation-fails", detail
	}
	// install the component map in a document and load it: references must resolve within the map
	comps := map[string]any{}
	for k, v := range schemas {
		comps[k] = v
	}
	comps["VerifRoot"] = ref
	docJSON, err := json.Marshal(map[string]any{"openapi": "3.0.3", "info": map[string]any{"title": "t", "version": "1"}, "paths": map[string]any{}, "components": map[string]any{"schemas": comps}})
	if err != nil {
		detail["error"] = err.Error()
		return "generated-schema-does-not-marshal(not finite?)", detail
	}
	if len(docJSON) < 3000 {
		detail["generated"] = string(docJSON)
	}
	doc, err := openapi3.NewLoader().LoadFromData(docJSON)
	if err != nil {
		detail["error"] = err.Error()
		return "generated-references-do-not-resolve-in-the-component-map", detail
	}
	_ = doc.Validate(context.Background())
	var decoded any
	if err := json.Unmarshal(enc, &decoded); err != nil {
		return "", nil
	}
	root := doc.Components.Schemas["VerifRoot"]
	if root == nil || root.Value == nil {
		return "generated-references-do-not-resolve-in-the-component-map", detail
	}
	if err := root.Value.VisitJSON(decoded); err != nil {
		e := err.Error()
		if len(e) > 300 {
			e = e[:300]
		}
		detail["error"] = e
		cl := "schema-rejects-the-encoding-of-a-value-of-the-type"
		if se, ok := err.(*openapi3.SchemaError); ok {
			cl += ":" + se.SchemaField
		}
		return cl, detail
	}
	return "", detail
}

func init() {
	optSets := []struct {
		name string
		opts []openapi3gen.Option
	}{
		{"default", nil},
		{"UseAllExportedFields", []openapi3gen.Option{openapi3gen.UseAllExportedFields()}},
		{"CreateComponentSchemas", []openapi3gen.Option{openapi3gen.CreateComponentSchemas(openapi3gen.ExportComponentSchemasOptions{ExportComponentSchemas: true})}},
	}
	core.Register(&core.Check{
		ID: "C18",
		Rule: "unnamed Go types from the grammar T ::= leaf (16 kinds: bool, every sized int/uint, floats, string, []byte, time.Time) | *T | []T | map[string]T | struct{A T} | struct{A T; B T} with JSON tags (named, omitempty, '-', none), enumerated completely within a budget of 2 constructors (thorough: also 3 constructors over the leaf kinds int, string, time.Time: 175 728 types) and built with reflect; struct fields of every chain of up to two unary constructors over {int, string, bool} under every tag, alone (quick) or in pairs (thorough); " +
			"plus 21 hand-declared named types (recursion through pointer, slice and map, mutual recursion, embedding by value and by pointer, name clash, tagged embedding, omitempty, unexported fields) with listed values. Values: boundary values per kind, collections non-nil, one field varied at a time. " +
			"x generator options {default, UseAllExportedFields, CreateComponentSchemas}. The value's encoding/json output must validate against the generated schema after the returned component map is installed in a document and loaded. non-trivial = the type has at least one constructor",
		Assumptions: []string{
			"encoding/json is the other program: its output for a value is by definition a JSON encoding of the type",
			"excluded as the property says: nil slices/maps, values that encode as null at top level, values encoding/json refuses",
			"numbers are decoded to float64 before validation (what request validation does)",
		},
		Bounds:        func(tier string) map[string]any { return map[string]any{"constructor_budget": map[string]int{"quick": 2, "thorough": 3}[tier], "leaf_kinds": len(c18Leaves), "named_values": len(c18Named())} },
		MinOutcomes:   1,
		ShrinkVectors: true,
		Body: func(r *core.Run, x *explore.X) {
			named := c18Named()
			family := x.Choose(3)
			var t reflect.Type
			ni := 0
			if family == 0 {
				b := 2
				if r.Tier == "thorough" && x.Bool() {
					// thorough: additionally every type within 3 constructors over the reduced leaf set (7 kinds)
					b = 3
					c18Deep = true
					t = c18GenType(x, &b, true)
					c18Deep = false
				} else {
					t = c18GenType(x, &b, false)
				}
			} else if family == 2 {
				// struct fields of deeper types: every chain of up to two unary constructors over {int, string, bool}
				// (**int, *[]string, []*bool, map[string]*int, ...) under every tag, alone (quick) or next to a second such field (thorough)
				fts := c18DeepFieldTypes()
				a := explore.Pick(x, fts)
				ta := explore.Pick(x, []reflect.StructTag{`json:"a"`, ``, `json:"a,omitempty"`})
				fields := []reflect.StructField{{Name: "A", Type: a, Tag: ta}}
				if r.Tier == "thorough" && x.Bool() {
					b := explore.Pick(x, fts)
					tb := explore.Pick(x, []reflect.StructTag{`json:"b"`, `json:"b,omitempty"`})
					fields = append(fields, reflect.StructField{Name: "B", Type: b, Tag: tb})
				}
				t = reflect.StructOf(fields)
				family = 0
			} else {
				ni = x.Choose(len(named))
			}
			oi := x.Choose(len(optSets))
			if !r.Own(x) {
				return
			}
			if family == 0 && optSets[oi].name == "CreateComponentSchemas" {
				return // types built by reflection are unnamed: options that name components apply to named types only
			}
			var vals []any
			tname := ""
			if family == 0 {
				tname = t.String()
				for _, v := range c18Values(t, 0) {
					vals = append(vals, v.Interface())
				}
			} else {
				vals = []any{named[ni]}
				tname = fmt.Sprintf("%T #%d", named[ni], ni)
			}
			if r.WantSample(x) {
				r.Sample(x, map[string]any{"go_type": tname, "options": optSets[oi].name, "values": len(vals)})
			}
			for vi, v := range vals {
				sig := fmt.Sprintf("type=%s options=%s", tname, optSets[oi].name)
				var clause string
				var detail map[string]any
				r.Exec(0)
				if !r.Guard(x, "generate+validate", map[string]any{"go_type": tname, "options": optSets[oi].name}, func() { clause, detail = c18Check(v, optSets[oi].opts) }) {
					continue
				}
				if detail == nil {
					r.Outcome("excluded-value")
					continue
				}
				r.Case(fmt.Sprintf("%s|%d", sig, vi), family == 1 || t.Kind() == reflect.Ptr || t.Kind() == reflect.Slice || t.Kind() == reflect.Map || (t.Kind() == reflect.Struct && t != reflect.TypeOf(time.Time{})))
				r.Validated(1)
				if clause != "" {
					detail["options"] = optSets[oi].name
					// the type is part of the violation's identity: shrinking stays within one Go type
					tid := tname
					if family == 1 {
						tid = fmt.Sprintf("%T", named[ni])
					}
					r.Fail(x, clause+":"+tid, fmt.Sprintf("%s json=%s", sig, detail["json"]), detail)
					r.Outcome("rejected")
					break // one witness per type
				}
				r.Outcome("accepted")
			}
		},
	})
}
