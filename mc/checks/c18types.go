package checks

import "time"

// Named, embedding and recursive types of the C18 grammar (they cannot be built by reflection).

type C18N1 struct {
	Next *C18N1 `json:"next"`
	V    int    `json:"v"`
}
type C18N2 struct {
	Kids []C18N2 `json:"kids"`
	Name string  `json:"name"`
}
type C18N3 struct {
	M map[string]C18N3 `json:"m"`
}
type C18N4 struct {
	P *C18N4 `json:"p,omitempty"`
	Q *C18N4 `json:"q"`
}
type C18N5a struct {
	B *C18N5b `json:"b"`
}
type C18N5b struct {
	A *C18N5a  `json:"a"`
	L []C18N5a `json:"l"`
}
type C18E1 struct {
	A int `json:"a"`
}
type C18E2 struct {
	C18E1
	B string `json:"b"`
}
type C18E3 struct {
	*C18E1
	B string `json:"b"`
}
type C18E4 struct {
	C18E1
	A string `json:"a"`
}
type C18E5 struct {
	C18E1 `json:"e"`
	B     int
}
type C18E6 struct {
	C18E2
	C bool `json:"c,omitempty"`
}
type C18O1 struct {
	A *int           `json:"a,omitempty"`
	B []string       `json:"b,omitempty"`
	C map[string]int `json:"c,omitempty"`
}
type C18U1 struct {
	a int
	B int
}
type C18T1 struct {
	When time.Time `json:"when"`
	Raw  []byte    `json:"raw"`
}
type C18P1 struct {
	V *[]*string `json:"v"`
}
type C18D1 struct {
	A int `json:"-"`
	B int `json:"-,"`
}
type C18V1 struct {
	A int  `json:"a"`
	B *int `json:"b"`
}
type C18V2 struct {
	A C18E1  `json:"a"`
	B *C18E1 `json:"b"`
	C []C18E1
}
type C18V3 struct {
	L []*C18E1           `json:"l"`
	M map[string]*C18E1  `json:"m"`
	N map[string][]C18E1 `json:"n"`
}

// named container types that close a recursion cycle (the same named slice / map type above and inside the struct)
type C18Nodes []*C18Node
type C18Node struct {
	Name     string   `json:"name"`
	Children C18Nodes `json:"children"`
}
type C18Tree struct {
	Roots C18Nodes `json:"roots"`
}
type C18Index map[string]*C18Entry
type C18Entry struct {
	Sub C18Index `json:"sub"`
}
type C18Book struct {
	Index C18Index `json:"index"`
}

// a recursive type whose link is omitted when nil, used from outside its own cycle: by value (or below a slice / map)
// in a field that comes before a plain pointer to it, and the other way round
type C18R struct {
	V    int   `json:"v"`
	Next *C18R `json:"next,omitempty"`
}
type C18RU1 struct {
	Head C18R  `json:"head"`
	Tail *C18R `json:"tail"`
}
type C18RU2 struct {
	A *C18R           `json:"a"`
	B C18R            `json:"b"`
	L []C18R          `json:"l"`
	M map[string]C18R `json:"m"`
	Z *C18R           `json:"z"`
}

func c18Named() []any {
	one, s := 1, "s"
	ps := &s
	sl := []*string{ps, nil}
	e1 := C18E1{A: 1}
	return []any{
		C18N1{}, C18N1{Next: &C18N1{V: 1}}, C18N1{Next: &C18N1{Next: &C18N1{}}}, &C18N1{},
		C18N2{Kids: []C18N2{}}, C18N2{Kids: []C18N2{{Kids: []C18N2{}, Name: "k"}}},
		C18N3{M: map[string]C18N3{}}, C18N3{M: map[string]C18N3{"k": {M: map[string]C18N3{}}}},
		C18N4{}, C18N4{P: &C18N4{}, Q: &C18N4{Q: &C18N4{}}},
		C18N5a{}, C18N5a{B: &C18N5b{L: []C18N5a{}}}, C18N5a{B: &C18N5b{A: &C18N5a{}, L: []C18N5a{{}}}},
		C18E1{A: 1}, C18E2{C18E1: e1, B: "b"}, C18E3{B: "b"}, C18E3{C18E1: &e1, B: "b"}, C18E4{C18E1: e1, A: "outer"}, C18E5{C18E1: e1, B: 2}, C18E6{C18E2: C18E2{C18E1: e1, B: "b"}, C: true}, C18E6{},
		C18O1{A: &one, B: []string{"x"}, C: map[string]int{"k": 1}}, C18O1{B: []string{}, C: map[string]int{}},
		C18U1{a: 1, B: 2}, C18T1{Raw: []byte{}}, C18T1{When: time.Date(2020, 1, 2, 3, 4, 5, 123456789, time.FixedZone("x", 3600)), Raw: []byte{1, 2}},
		C18P1{}, C18P1{V: &sl}, C18D1{A: 1, B: 2},
		C18V1{A: 1}, C18V1{A: 1, B: &one}, C18V2{A: e1, C: []C18E1{}}, C18V2{A: e1, B: &e1, C: []C18E1{e1}},
		C18Tree{Roots: C18Nodes{}}, C18Tree{Roots: C18Nodes{{Name: "n", Children: C18Nodes{{Name: "m", Children: C18Nodes{}}}}}}, C18Nodes{{Name: "n", Children: C18Nodes{}}},
		C18Book{Index: C18Index{}}, C18Book{Index: C18Index{"k": {Sub: C18Index{"j": {Sub: C18Index{}}}}}},
		C18RU1{}, C18RU1{Head: C18R{V: 1, Next: &C18R{V: 2}}}, C18RU1{Head: C18R{V: 1}, Tail: &C18R{V: 3, Next: &C18R{V: 4}}},
		C18RU2{L: []C18R{}, M: map[string]C18R{}}, C18RU2{A: &C18R{Next: &C18R{}}, B: C18R{Next: &C18R{}}, L: []C18R{{Next: &C18R{}}}, M: map[string]C18R{"k": {}}, Z: &C18R{}},
		C18V3{L: []*C18E1{}, M: map[string]*C18E1{}, N: map[string][]C18E1{}}, C18V3{L: []*C18E1{&e1, nil}, M: map[string]*C18E1{"k": nil, "j": &e1}, N: map[string][]C18E1{"k": {e1}}},
	}
}
