package checks

import (
	"encoding/json"
	"fmt"
	"os"
	"reflect"
	"sort"
	"strings"

	"github.com/getkin/kin-openapi/openapi3"
)

// ---- the skeleton document ----

var skeletonRaw []byte

// Skeleton returns a fresh parsed copy of the maximal conforming document (design/skeleton.json).
func Skeleton() map[string]any {
	if skeletonRaw == nil {
		dir := os.Getenv("VERIF_DIR")
		if dir == "" {
			dir = "/verif"
		}
		b, err := os.ReadFile(dir + "/design/skeleton.json")
		if err != nil {
			panic(err)
		}
		skeletonRaw = b
	}
	var m map[string]any
	if err := json.Unmarshal(skeletonRaw, &m); err != nil {
		panic(err)
	}
	return m
}

// ---- position grammar (DESIGN appendix B) ----

// Position is a place in a raw document where an object of Kind stands (inline or as a reference).
type Position struct {
	Ptr  []string
	Kind string
}

func (p Position) String() string { return PtrString(p.Ptr) }

// PtrString renders pointer tokens as a JSON pointer.
func PtrString(toks []string) string {
	var b strings.Builder
	for _, t := range toks {
		b.WriteByte('/')
		b.WriteString(strings.ReplaceAll(strings.ReplaceAll(t, "~", "~0"), "/", "~1"))
	}
	return b.String()
}

var componentKinds = map[string]string{
	"schemas": "schema", "parameters": "parameter", "headers": "header", "requestBodies": "requestBody", "responses": "response",
	"examples": "example", "links": "link", "callbacks": "callback", "securitySchemes": "securityScheme",
}

// SectionOf maps a referenceable kind to its components section.
var SectionOf = map[string]string{
	"schema": "schemas", "parameter": "parameters", "header": "headers", "requestBody": "requestBodies", "response": "responses",
	"example": "examples", "link": "links", "callback": "callbacks", "securityScheme": "securitySchemes", "pathItem": "x-pathItems",
}

var RefKinds = []string{"schema", "parameter", "header", "requestBody", "response", "example", "link", "callback", "securityScheme", "pathItem"}

var httpMethods = []string{"get", "put", "post", "delete", "options", "head", "patch", "trace"}

// Positions enumerates every position of a referenceable kind in doc, in deterministic order.
func Positions(doc map[string]any) []Position { return positions(doc, false) }

// PositionsAll also lists the positions of operations, media types and encodings.
func PositionsAll(doc map[string]any) []Position { return positions(doc, true) }

func positions(doc map[string]any, all bool) []Position {
	var out []Position
	add := func(ptr []string, kind string) { out = append(out, Position{append([]string{}, ptr...), kind}) }
	var walk func(node any, kind string, ptr []string)
	obj := func(node any, key string) (map[string]any, bool) {
		m, ok := node.(map[string]any)
		if !ok {
			return nil, false
		}
		c, ok := m[key].(map[string]any)
		return c, ok
	}
	each := func(node any, key, kind string, ptr []string) {
		if c, ok := obj(node, key); ok {
			for _, k := range sortedKeys(c) {
				walk(c[k], kind, append(append([]string{}, ptr...), key, k))
			}
		}
	}
	one := func(node any, key, kind string, ptr []string) {
		if m, ok := node.(map[string]any); ok {
			if c, ok := m[key]; ok {
				if _, isObj := c.(map[string]any); isObj {
					walk(c, kind, append(append([]string{}, ptr...), key))
				}
			}
		}
	}
	list := func(node any, key, kind string, ptr []string) {
		if m, ok := node.(map[string]any); ok {
			if l, ok := m[key].([]any); ok {
				for i, e := range l {
					walk(e, kind, append(append([]string{}, ptr...), key, fmt.Sprint(i)))
				}
			}
		}
	}
	walk = func(node any, kind string, ptr []string) {
		switch kind {
		case "schema", "parameter", "header", "requestBody", "response", "example", "link", "callback", "securityScheme", "pathItem":
			add(ptr, kind)
		default:
			if all {
				add(ptr, kind)
			}
		}
		m, ok := node.(map[string]any)
		if !ok {
			return
		}
		if _, isRef := m["$ref"]; isRef && kind != "pathItem" {
			return
		}
		switch kind {
		case "pathItem":
			list(node, "parameters", "parameter", ptr)
			for _, meth := range httpMethods {
				one(node, meth, "operation", ptr)
			}
		case "operation":
			list(node, "parameters", "parameter", ptr)
			one(node, "requestBody", "requestBody", ptr)
			each(node, "responses", "response", ptr)
			each(node, "callbacks", "callback", ptr)
		case "callback":
			for _, k := range sortedKeys(m) {
				if !strings.HasPrefix(k, "x-") {
					walk(m[k], "pathItem", append(append([]string{}, ptr...), k))
				}
			}
		case "parameter", "header":
			one(node, "schema", "schema", ptr)
			each(node, "content", "mediaType", ptr)
			each(node, "examples", "example", ptr)
		case "requestBody":
			each(node, "content", "mediaType", ptr)
		case "response":
			each(node, "headers", "header", ptr)
			each(node, "content", "mediaType", ptr)
			each(node, "links", "link", ptr)
		case "mediaType":
			one(node, "schema", "schema", ptr)
			each(node, "examples", "example", ptr)
			each(node, "encoding", "encoding", ptr)
		case "encoding":
			each(node, "headers", "header", ptr)
		case "schema":
			one(node, "items", "schema", ptr)
			one(node, "not", "schema", ptr)
			one(node, "additionalProperties", "schema", ptr)
			each(node, "properties", "schema", ptr)
			list(node, "allOf", "schema", ptr)
			list(node, "anyOf", "schema", ptr)
			list(node, "oneOf", "schema", ptr)
		}
	}
	if comps, ok := doc["components"].(map[string]any); ok {
		for _, sec := range sortedKeys(comps) {
			kind, ok := componentKinds[sec]
			if !ok {
				continue
			}
			each(comps, sec, kind, []string{"components"})
		}
	}
	each(doc, "paths", "pathItem", nil)
	return out
}

// SetAt replaces the node at ptr in doc by v (doc is modified in place).
func SetAt(doc any, ptr []string, v any) bool {
	cur := doc
	for i, t := range ptr {
		last := i == len(ptr)-1
		switch c := cur.(type) {
		case map[string]any:
			if last {
				c[t] = v
				return true
			}
			n, ok := c[t]
			if !ok {
				return false
			}
			cur = n
		case []any:
			var idx int
			if _, err := fmt.Sscanf(t, "%d", &idx); err != nil || idx < 0 || idx >= len(c) {
				return false
			}
			if last {
				c[idx] = v
				return true
			}
			cur = c[idx]
		default:
			return false
		}
	}
	return false
}

// GetAt returns the node at ptr.
func GetAt(doc any, ptr []string) (any, bool) {
	cur := doc
	for _, t := range ptr {
		switch c := cur.(type) {
		case map[string]any:
			n, ok := c[t]
			if !ok {
				return nil, false
			}
			cur = n
		case []any:
			var idx int
			if _, err := fmt.Sscanf(t, "%d", &idx); err != nil || idx < 0 || idx >= len(c) {
				return nil, false
			}
			cur = c[idx]
		default:
			return nil, false
		}
	}
	return cur, true
}

// ---- expansion of a loaded document (the implementation side of the C02/C16 comparison) ----

type yamlMarshaler interface{ MarshalYAML() (any, error) }

// ExpandImpl renders a loaded value as JSON-like data in which every reference object appears as
// {"$ref": r, "$value": expansion of Value} down to depth nested references (then {"$ref","$cut"});
// a reference whose Value is nil appears as {"$ref": r, "$error": "unresolved"}.
func ExpandImpl(v any, depth int) any { return expandImpl(v, depth, 0) }

func expandImpl(v any, depth, guard int) any {
	if guard > 400 {
		panic("ExpandImpl: runaway recursion")
	}
	if v == nil {
		return nil
	}
	rv := reflect.ValueOf(v)
	if (rv.Kind() == reflect.Ptr || rv.Kind() == reflect.Map || rv.Kind() == reflect.Slice || rv.Kind() == reflect.Interface) && rv.IsNil() {
		return nil
	}
	if pi, ok := v.(*openapi3.PathItem); ok && pi.Ref != "" {
		if depth <= 0 {
			return map[string]any{"$ref": pi.Ref, "$cut": true}
		}
		c := *pi
		c.Ref = ""
		if c.Summary == "" && c.Description == "" && c.Extensions == nil && len(c.Operations()) == 0 && len(c.Parameters) == 0 && len(c.Servers) == 0 {
			return map[string]any{"$ref": pi.Ref, "$error": "unresolved"}
		}
		return map[string]any{"$ref": pi.Ref, "$value": expandImpl(&c, depth-1, guard+1)}
	}
	if app, ok := v.(*openapi3.AdditionalProperties); ok {
		v = *app
	}
	if ap, ok := v.(openapi3.AdditionalProperties); ok {
		if ap.Has != nil {
			return *ap.Has
		}
		if ap.Schema == nil {
			return nil
		}
		return expandImpl(ap.Schema, depth, guard+1)
	}
	// reference wrapper: struct{ ...; Ref string; Value *X }
	if rv.Kind() == reflect.Ptr && rv.Elem().Kind() == reflect.Struct {
		e := rv.Elem()
		rf, vf := e.FieldByName("Ref"), e.FieldByName("Value")
		if rf.IsValid() && vf.IsValid() && rf.Kind() == reflect.String && vf.Kind() == reflect.Ptr && strings.HasSuffix(e.Type().Name(), "Ref") {
			if r := rf.String(); r != "" {
				if depth <= 0 {
					return map[string]any{"$ref": r, "$cut": true}
				}
				if vf.IsNil() {
					return map[string]any{"$ref": r, "$error": "unresolved"}
				}
				return map[string]any{"$ref": r, "$value": expandImpl(vf.Interface(), depth-1, guard+1)}
			}
			if vf.IsNil() {
				return nil
			}
			return expandImpl(vf.Interface(), depth, guard+1)
		}
	}
	if m, ok := v.(yamlMarshaler); ok {
		out, err := m.MarshalYAML()
		if err != nil {
			return map[string]any{"$marshal-error": err.Error()}
		}
		if reflect.TypeOf(out) == reflect.TypeOf(v) {
			return generic(out)
		}
		return expandImpl(out, depth, guard+1)
	}
	switch rv.Kind() {
	case reflect.Ptr, reflect.Interface:
		return expandImpl(rv.Elem().Interface(), depth, guard+1)
	case reflect.Map:
		out := map[string]any{}
		for _, k := range rv.MapKeys() {
			out[fmt.Sprint(k.Interface())] = expandImpl(rv.MapIndex(k).Interface(), depth, guard+1)
		}
		return out
	case reflect.Slice, reflect.Array:
		if rv.Type().Elem().Kind() == reflect.Uint8 {
			return generic(v)
		}
		out := make([]any, rv.Len())
		for i := range out {
			out[i] = expandImpl(rv.Index(i).Interface(), depth, guard+1)
		}
		return out
	case reflect.Struct:
		return generic(v)
	}
	return generic(v)
}

func generic(v any) any {
	b, err := json.Marshal(v)
	if err != nil {
		return map[string]any{"$marshal-error": err.Error()}
	}
	var out any
	if err := json.Unmarshal(b, &out); err != nil {
		return map[string]any{"$marshal-error": err.Error()}
	}
	return out
}

// DiffJSONCut is DiffJSON where a node that either side cut off ({"$cut":true}) matches anything.
func DiffJSONCut(a, b any, max int) []string { return diffJSON(a, b, max, true) }

// DiffJSON returns up to max JSON-pointer paths at which a and b differ.
func DiffJSON(a, b any, max int) []string { return diffJSON(a, b, max, false) }

func diffJSON(a, b any, max int, cutWildcard bool) []string {
	var out []string
	var rec func(a, b any, path string)
	rec = func(a, b any, path string) {
		if len(out) >= max {
			return
		}
		am, aok := a.(map[string]any)
		bm, bok := b.(map[string]any)
		if cutWildcard {
			if _, c := am["$cut"]; aok && c {
				return
			}
			if _, c := bm["$cut"]; bok && c {
				return
			}
		}
		if aok && bok {
			keys := map[string]bool{}
			for k := range am {
				keys[k] = true
			}
			for k := range bm {
				keys[k] = true
			}
			ks := make([]string, 0, len(keys))
			for k := range keys {
				ks = append(ks, k)
			}
			sort.Strings(ks)
			for _, k := range ks {
				av, ain := am[k]
				bv, bin := bm[k]
				switch {
				case !ain:
					out = append(out, path+"/"+k+" (only right)")
				case !bin:
					out = append(out, path+"/"+k+" (only left)")
				default:
					rec(av, bv, path+"/"+k)
				}
				if len(out) >= max {
					return
				}
			}
			return
		}
		al, aok := a.([]any)
		bl, bok := b.([]any)
		if aok && bok {
			if len(al) != len(bl) {
				out = append(out, fmt.Sprintf("%s (length %d vs %d)", path, len(al), len(bl)))
				return
			}
			for i := range al {
				rec(al[i], bl[i], fmt.Sprintf("%s/%d", path, i))
			}
			return
		}
		switch av := a.(type) {
		case string:
			if bv, ok := b.(string); ok && av == bv {
				return
			}
		case float64:
			if bv, ok := b.(float64); ok && av == bv {
				return
			}
		case bool:
			if bv, ok := b.(bool); ok && av == bv {
				return
			}
		case nil:
			if b == nil {
				return
			}
		}
		if CanonJSON(a) != CanonJSON(b) {
			out = append(out, fmt.Sprintf("%s (%.60s vs %.60s)", path, CanonJSON(a), CanonJSON(b)))
		}
	}
	rec(a, b, "")
	return out
}
