package checks

import (
	"encoding/json"
	"sort"

	"verifmc/explore"
)

// ---- schema alphabet shared by C01, C12, C19, C10 ----

type kwOpt struct {
	key string
	val any
}

// atom slots in canonical order: each slot is one keyword, with a tiny argument domain.
var schemaAtomSlots = [][]kwOpt{
	{{"type", "boolean"}, {"type", "integer"}, {"type", "number"}, {"type", "string"}, {"type", "array"}, {"type", "object"}},
	{{"nullable", true}},
	{{"enum", []any{1.0}}, {"enum", []any{"a"}}, {"enum", []any{1.0, "a"}}, {"enum", []any{[]any{1.0}}}, {"enum", []any{map[string]any{"a": 1.0}}}, {"enum", []any{nil, 1.0}}},
	{{"minimum", 0.0}, {"minimum", 1.0}, {"minimum", 1.5}, {"minimum+x", 1.0}, {"minimum+x", 1.5}},
	{{"maximum", 0.0}, {"maximum", 1.0}, {"maximum", 1.5}, {"maximum+x", 1.0}, {"maximum+x", 1.5}},
	{{"multipleOf", 2.0}, {"multipleOf", 0.5}},
	{{"minLength", 1.0}, {"minLength", 2.0}},
	{{"maxLength", 1.0}, {"maxLength", 2.0}},
	{{"pattern", "^a"}, {"pattern", "b$"}},
	{{"minItems", 1.0}, {"minItems", 2.0}},
	{{"maxItems", 1.0}, {"maxItems", 2.0}},
	{{"uniqueItems", true}},
	{{"required", []any{"a"}}, {"required", []any{"b"}}, {"required", []any{"a", "b"}}},
	{{"minProperties", 1.0}, {"minProperties", 2.0}},
	{{"maxProperties", 1.0}, {"maxProperties", 2.0}},
	{{"additionalProperties", true}, {"additionalProperties", false}},
}

// applicator forms: name -> list of (shape) where shape is number of sub-schemas
type applForm struct {
	key   string
	shape string // "one", "list1", "list2", "propA", "propAB", "propB"
}

var schemaApplSlots = [][]applForm{
	{{"additionalProperties", "one"}},
	{{"items", "one"}},
	{{"properties", "propA"}, {"properties", "propB"}, {"properties", "propAB"}},
	{{"allOf", "list1"}, {"allOf", "list2"}},
	{{"anyOf", "list1"}, {"anyOf", "list2"}},
	{{"oneOf", "list1"}, {"oneOf", "list2"}, {"oneOf", "list3"}},
	{{"not", "one"}},
}

func (f applForm) arity() int {
	switch f.shape {
	case "list2", "propAB", "propAB-ro":
		return 2
	case "list3":
		return 3
	}
	return 1
}

// Alphabet is a schema alphabet: atom slots and applicator slots in canonical order.
type Alphabet struct {
	Atoms [][]kwOpt
	Appls [][]applForm
}

// GenSchema enumerates the schemas of the default (C01) alphabet.
func GenSchema(x *explore.X, budget *int, depth int) map[string]any {
	return Alphabet{schemaAtomSlots, schemaApplSlots}.Gen(x, budget, depth)
}

// WithAtoms returns the default alphabet with extra atom slots appended and optional extra
// argument choices for existing slots (matched by keyword).
func DefaultAlphabetWith(extraSlots [][]kwOpt, extraOpts []kwOpt) Alphabet {
	var atoms [][]kwOpt
	for _, slot := range schemaAtomSlots {
		ns := append([]kwOpt{}, slot...)
		for _, o := range extraOpts {
			if o.key == slot[0].key {
				ns = append(ns, o)
			}
		}
		atoms = append(atoms, ns)
	}
	atoms = append(atoms, extraSlots...)
	return Alphabet{atoms, schemaApplSlots}
}

// withAppls returns the alphabet with extra forms appended to the applicator slot of the same keyword.
func (al Alphabet) withAppls(extra []applForm) Alphabet {
	var appls [][]applForm
	for _, slot := range al.Appls {
		ns := append([]applForm{}, slot...)
		for _, e := range extra {
			if e.key == slot[0].key {
				ns = append(ns, e)
			}
		}
		appls = append(appls, ns)
	}
	return Alphabet{al.Atoms, appls}
}

// Gen enumerates every schema with at most *budget keyword instances (an applicator costs one
// plus its operands), each exactly once: slots are visited in fixed order and a keyword occurs at
// most once per schema object.
func (al Alphabet) Gen(x *explore.X, budget *int, depth int) map[string]any {
	s := map[string]any{}
	for _, slot := range al.Atoms {
		if *budget <= 0 {
			return s
		}
		if _, taken := s[slot[0].key]; taken { // additionalProperties bool vs schema
			continue
		}
		c := x.Choose(1 + len(slot))
		if c == 0 {
			continue
		}
		o := slot[c-1]
		*budget--
		switch o.key {
		case "minimum+x":
			s["minimum"] = o.val
			s["exclusiveMinimum"] = true
		case "maximum+x":
			s["maximum"] = o.val
			s["exclusiveMaximum"] = true
		default:
			s[o.key] = o.val
		}
	}
	if depth <= 0 {
		return s
	}
	for _, slot := range al.Appls {
		if *budget <= 0 {
			return s
		}
		if _, taken := s[slot[0].key]; taken {
			continue
		}
		// only forms whose operands fit: an operand may be the empty schema (cost 0)
		c := x.Choose(1 + len(slot))
		if c == 0 {
			continue
		}
		f := slot[c-1]
		*budget--
		sub := func() map[string]any { return al.Gen(x, budget, depth-1) }
		switch f.shape {
		case "one":
			s[f.key] = sub()
		case "list1":
			s[f.key] = []any{sub()}
		case "list2":
			a := sub()
			b := sub()
			s[f.key] = []any{a, b}
		case "list3":
			a := sub()
			b := sub()
			c := sub()
			s[f.key] = []any{a, b, c}
		case "propA":
			s[f.key] = map[string]any{"a": sub()}
		case "propB":
			s[f.key] = map[string]any{"b": sub()}
		case "propAB":
			a := sub()
			b := sub()
			s[f.key] = map[string]any{"a": a, "b": b}
		case "propEsc":
			s[f.key] = map[string]any{"s/l~t": sub()}
		case "propA-ro":
			a := sub()
			a["readOnly"] = true
			s[f.key] = map[string]any{"a": a}
		case "propA-wo":
			a := sub()
			a["writeOnly"] = true
			s[f.key] = map[string]any{"a": a}
		case "propAB-ro":
			a := sub()
			a["readOnly"] = true
			b := sub()
			s[f.key] = map[string]any{"a": a, "b": b}
		}
	}
	return s
}

// CanonJSON renders v with sorted keys (encoding/json sorts map keys).
func CanonJSON(v any) string {
	b, err := json.Marshal(v)
	if err != nil {
		return "!" + err.Error()
	}
	return string(b)
}

// ---- value alphabet ----

// ValueSet returns the JSON values of the given size class: 0 = scalars only, 1 = arrays/objects of
// up to 2 members incl. duplicates and one nested level, 2 = up to 3 members.
func ValueSet(size int) []any {
	// strings: every length around the bounds 1 and 2, in one-byte and in multi-byte characters (byte length != character count)
	scalars := []any{nil, false, true, 0.0, 1.0, 2.0, -1.0, 1.5, 0.5, "", "a", "ab", "b", "\U0001D11E", "\u00e9", "\u00e9\u00e9", "b\u00e9b"}
	out := append([]any{}, scalars...)
	if size == 0 {
		return out
	}
	elems := []any{nil, true, 0.0, 1.0, 1.5, "a", "b", "ab"}
	out = append(out, []any{})
	for _, e := range elems {
		out = append(out, []any{e})
	}
	for _, a := range elems {
		for _, b := range elems {
			out = append(out, []any{a, b})
		}
	}
	// nested level
	out = append(out, []any{[]any{}}, []any{[]any{1.0}}, []any{[]any{1.0}, []any{1.0}}, []any{map[string]any{"a": 1.0}}, []any{map[string]any{"a": 1.0}, map[string]any{"a": 1.0}},
		[]any{[]any{1.0}, []any{1.0, 1.0}}, []any{1.0, "1"})
	pvals := []any{nil, true, 1.0, 1.5, "a", "ab"}
	out = append(out, map[string]any{})
	for _, k := range []string{"a", "b", "c"} {
		for _, v := range pvals {
			out = append(out, map[string]any{k: v})
		}
	}
	for _, ks := range [][2]string{{"a", "b"}, {"a", "c"}, {"b", "c"}} {
		for _, v := range pvals {
			for _, w := range []any{1.0, "a", nil} {
				out = append(out, map[string]any{ks[0]: v, ks[1]: w})
			}
		}
	}
	out = append(out, map[string]any{"a": map[string]any{"a": 1.0}}, map[string]any{"a": []any{1.0, 1.0}}, map[string]any{"a": map[string]any{}}, map[string]any{"a": []any{}},
		map[string]any{"a": 1.0, "b": "a", "c": true})
	if size >= 2 {
		for _, a := range []any{1.0, "a", nil} {
			for _, b := range []any{1.0, 2.0, "a"} {
				for _, c := range []any{1.0, "b", 1.5} {
					out = append(out, []any{a, b, c})
				}
			}
		}
		out = append(out, map[string]any{"a": 2.0, "b": 2.0, "c": 2.0}, map[string]any{"a": "a", "b": nil, "c": 1.5})
	}
	return out
}

// cloneJSON deep-copies a decoded JSON value.
func cloneJSON(v any) any {
	switch x := v.(type) {
	case []any:
		out := make([]any, len(x))
		for i, e := range x {
			out[i] = cloneJSON(e)
		}
		return out
	case map[string]any:
		out := make(map[string]any, len(x))
		for k, e := range x {
			out[k] = cloneJSON(e)
		}
		return out
	}
	return v
}

func sortedKeys[V any](m map[string]V) []string {
	ks := make([]string, 0, len(m))
	for k := range m {
		ks = append(ks, k)
	}
	sort.Strings(ks)
	return ks
}

// ---- shrinking of (schema, value) witnesses ----

// schemaShrinks returns the one-step simplifications of a schema, in deterministic order.
func schemaShrinks(s map[string]any) []map[string]any {
	var out []map[string]any
	for _, k := range sortedKeys(s) {
		// drop keyword
		c := cloneJSON(s).(map[string]any)
		delete(c, k)
		if k == "minimum" {
			delete(c, "exclusiveMinimum")
		}
		if k == "maximum" {
			delete(c, "exclusiveMaximum")
		}
		if k == "exclusiveMinimum" || k == "exclusiveMaximum" {
			// dropping only the flag is a legal simplification too
		}
		out = append(out, c)
	}
	for _, k := range sortedKeys(s) {
		switch v := s[k].(type) {
		case map[string]any:
			if k == "properties" {
				for _, pk := range sortedKeys(v) {
					ps, _ := v[pk].(map[string]any)
					// drop the property
					if len(v) > 1 {
						c := cloneJSON(s).(map[string]any)
						delete(c[k].(map[string]any), pk)
						out = append(out, c)
					}
					for _, sub := range schemaShrinks(ps) {
						c := cloneJSON(s).(map[string]any)
						c[k].(map[string]any)[pk] = sub
						out = append(out, c)
					}
				}
			} else if k == "items" || k == "not" || k == "additionalProperties" {
				// hoist the operand in place of the parent is not meaning-preserving; shrink inside
				for _, sub := range schemaShrinks(v) {
					c := cloneJSON(s).(map[string]any)
					c[k] = sub
					out = append(out, c)
				}
			}
		case []any:
			if k == "allOf" || k == "anyOf" || k == "oneOf" {
				for i := range v {
					if len(v) > 1 {
						c := cloneJSON(s).(map[string]any)
						l := c[k].([]any)
						c[k] = append(append([]any{}, l[:i]...), l[i+1:]...)
						out = append(out, c)
					}
					es, _ := v[i].(map[string]any)
					for _, sub := range schemaShrinks(es) {
						c := cloneJSON(s).(map[string]any)
						c[k].([]any)[i] = sub
						out = append(out, c)
					}
				}
			} else if len(v) > 1 { // enum, required: drop one element
				for i := range v {
					c := cloneJSON(s).(map[string]any)
					l := c[k].([]any)
					c[k] = append(append([]any{}, l[:i]...), l[i+1:]...)
					out = append(out, c)
				}
			}
		}
	}
	return out
}

// valueShrinks returns simpler values, simplest first.
func valueShrinks(v any) []any {
	order := []any{nil, false, true, 0.0, 1.0, "", "a", []any{}, map[string]any{}}
	var out []any
	rank := func(w any) int {
		for i, o := range order {
			if CanonJSON(o) == CanonJSON(w) {
				return i
			}
		}
		return len(order)
	}
	rv := rank(v)
	for i, o := range order {
		if i < rv {
			out = append(out, o)
		}
	}
	switch x := v.(type) {
	case []any:
		for i := range x {
			c := append(append([]any{}, x[:i]...), x[i+1:]...)
			out = append(out, c)
		}
		for i := range x {
			for _, sub := range valueShrinks(x[i]) {
				c := cloneJSON(x).([]any)
				c[i] = sub
				out = append(out, c)
			}
		}
	case map[string]any:
		for _, k := range sortedKeys(x) {
			c := cloneJSON(x).(map[string]any)
			delete(c, k)
			out = append(out, c)
		}
		for _, k := range sortedKeys(x) {
			for _, sub := range valueShrinks(x[k]) {
				c := cloneJSON(x).(map[string]any)
				c[k] = sub
				out = append(out, c)
			}
		}
	}
	return out
}

// ShrinkSV greedily shrinks (schema, value) while still(schema, value) holds.
func ShrinkSV(s map[string]any, v any, still func(map[string]any, any) bool) (map[string]any, any) {
	for rounds := 0; rounds < 200; rounds++ {
		changed := false
		for _, c := range schemaShrinks(s) {
			if still(c, v) {
				s, changed = c, true
				break
			}
		}
		if changed {
			continue
		}
		for _, w := range valueShrinks(v) {
			if still(s, w) {
				v, changed = w, true
				break
			}
		}
		if !changed {
			break
		}
	}
	return s, v
}
