package checks

import (
	"regexp"
	"bytes"
	"context"
	"encoding/json"
	"errors"
	"fmt"
	"mime/multipart"
	"net/http"
	"net/textproto"
	"sort"
	"strings"

	"github.com/getkin/kin-openapi/openapi3"
	"github.com/getkin/kin-openapi/openapi3filter"

	"verifmc/core"
	"verifmc/explore"
	"verifmc/ref"
)

// ---- part A: media type selection ----

var c06Declarable = []string{"application/json", "application/json; charset=utf-8", "application/*", "*/*", "text/plain", "application/problem+json"}

var c06Headers = []string{"", "application/json", "application/json; charset=utf-8", "application/json;charset=utf-8", "application/json; charset=latin1", "application/problem+json",
	"application/hal+json", "text/plain", "text/plain; charset=utf-8", "image/png", "json", "application/", "APPLICATION/JSON"}

// bodyFor renders marker as a body the decoder registered for the header's media type turns into the string marker.
func c06BodyFor(header, marker string) ([]byte, bool) {
	mt := strings.TrimSpace(strings.SplitN(header, ";", 2)[0]) // decoders are looked up by the exact media type string
	switch mt {
	case "application/json", "application/problem+json", "application/hal+json":
		b, _ := json.Marshal(marker)
		return b, true
	case "text/plain":
		return []byte(marker), true
	}
	return []byte(`"` + marker + `"`), false // no decoder for this media type: cannot observe the selection, only the verdict class
}

// ---- part B: decoding and request-side rules ----

var c06ObjSchema = func(required []any) map[string]any {
	s := m("type", "object", "properties", m(
		"i", m("type", "integer"), "s", m("type", "string"), "b", m("type", "boolean"), "a", m("type", "array", "items", m("type", "integer")),
		"ro", m("type", "string", "readOnly", true), "wo", m("type", "string", "writeOnly", true),
		// a readOnly property with a default: a request that does not carry it is complete (nothing is filled in for the client)
		"rod", m("type", "string", "readOnly", true, "default", "server-side")))
	if len(required) > 0 {
		s["required"] = required
	}
	return s
}

var c06Requireds = [][]any{nil, {"i"}, {"ro"}, {"i", "ro"}, {"wo"}}

var c06Values = []map[string]any{
	{}, {"i": 1.0}, {"s": "x"}, {"b": true}, {"a": l(1.0, 2.0)}, {"i": 1.0, "s": "x y", "b": false, "a": l(3.0)}, {"ro": "r"}, {"wo": "w"}, {"i": 2.0, "ro": "r"}, {"i": 2.0, "wo": "w"},
	{"i": 1.0, "a": l(1.0, 2.0, 3.0)}, {"s": "a&b=c"},
}

var c06QuickValues = len(c06Values)

// further values of the thorough tier: signs, large integers, reserved characters, several fields at once
var c06ThoroughValues = []map[string]any{
	{"i": -5.0}, {"i": 2147483648.0}, {"i": 0.0}, {"s": "a+b c%"}, {"s": "ü/é?#"}, {"s": "1"}, {"s": "true"}, {"b": false}, {"a": l(0.0)}, {"a": l(-1.0, 10.0, 100.0, 1000.0)},
	{"i": 3.0, "b": true}, {"s": "x", "wo": "w"}, {"b": true, "ro": "r"}, {"i": 7.0, "s": "=&", "b": false, "a": l(1.0, 2.0), "wo": "w"},
}

// per-property encodings for urlencoded bodies (style/explode of the array property)
type c06Enc struct {
	name    string
	style   string
	explode bool
}

var c06Encs = []c06Enc{{"default", "", true}, {"form-explode", "form", true}, {"form-noexplode", "form", false}, {"space", "spaceDelimited", false}, {"pipe", "pipeDelimited", false}}

func c06Encode(format string, v map[string]any, enc c06Enc, badInt bool) (body []byte, contentType string) {
	switch format {
	case "json":
		if badInt {
			v = cloneJSON(v).(map[string]any)
			v["i"] = "zz"
		}
		b, _ := json.Marshal(v)
		return b, "application/json"
	case "urlencoded":
		var parts []string
		for _, k := range sortedKeys(v) {
			cell := ref.Cell{In: "query", Style: "form", Explode: true}
			if _, isArr := v[k].([]any); isArr && enc.style != "" {
				cell = ref.Cell{In: "query", Style: enc.style, Explode: enc.explode}
			}
			val := v[k]
			if k == "i" && badInt {
				val = "zz"
			}
			s := ref.Serialize(cell, k, val, false)
			if q := s.RawQuery(); q != "" {
				parts = append(parts, q)
			}
		}
		return []byte(strings.Join(parts, "&")), "application/x-www-form-urlencoded"
	case "multipart", "multipart-json-parts":
		var buf bytes.Buffer
		w := multipart.NewWriter(&buf)
		w.SetBoundary("verifboundary")
		for _, k := range sortedKeys(v) {
			write := func(text string) {
				h := textproto.MIMEHeader{}
				h.Set("Content-Disposition", fmt.Sprintf(`form-data; name=%q`, k))
				if _, isStr := v[k].(string); !isStr && format == "multipart-json-parts" {
					h.Set("Content-Type", "application/json") // non-string primitives as JSON parts
				}
				pw, _ := w.CreatePart(h)
				pw.Write([]byte(text))
			}
			switch x := v[k].(type) {
			case []any:
				for _, e := range x {
					write(ref.Prim(e))
				}
			default:
				if k == "i" && badInt {
					write("zz")
				} else {
					write(ref.Prim(x))
				}
			}
		}
		w.Close()
		return buf.Bytes(), "multipart/form-data; boundary=verifboundary"
	}
	panic(format)
}

func c06Input(body []byte, contentType string, opts *openapi3filter.Options) *openapi3filter.RequestValidationInput {
	var rd *bytes.Reader
	req, _ := http.NewRequest("POST", "http://h.example/r", nil)
	if body != nil {
		rd = bytes.NewReader(body)
		req, _ = http.NewRequest("POST", "http://h.example/r", rd)
	}
	if contentType != "" {
		req.Header.Set("Content-Type", contentType)
	}
	return &openapi3filter.RequestValidationInput{Request: req, Options: opts}
}

func init() {
	core.Register(&core.Check{
		ID: "C06",
		Rule: "part A (selection): every set of <=3 declared media types out of {application/json, application/json; charset=utf-8, application/*, */*, text/plain, application/problem+json}, each accepting exactly its own marker, x 13 Content-Type headers (absent, exact, parameterised, spelled without space, subtype only covered by a wildcard, undeclared, malformed, upper case) " +
			"x body carrying the marker of the entry the documented precedence selects / of another entry / no body / empty body x required; part B (decoding and request rules): an object schema with integer, string, boolean, integer-array, readOnly and writeOnly properties x 5 required lists x 12 values x {json, urlencoded with 5 array encodings, multipart with text parts, multipart with JSON parts for non-strings} x a field that is not text of its type x ExcludeReadOnlyValidations: " +
			"the public decoder must return the encoded value and ValidateRequestBody must accept iff the reference evaluator (request reading) does. non-trivial = a body is present",
		Assumptions: []string{
			"selection model mc/ref/content.go: exact string, without parameters, type/*, */*; an absent header selects */* only",
			"reference encoders: encoding/json, the C05 style serialiser for urlencoded properties, mime/multipart with one text part per primitive / per array item",
			"request reading: readOnly properties must be absent and need not be present even if required; ExcludeReadOnlyValidations lifts only the first half",
			"for content types without a registered decoder only the verdict class (error) is compared",
		},
		Bounds:        func(tier string) map[string]any { return map[string]any{"declared_set_size": 3, "headers": len(c06Headers), "values": len(c06Values)} },
		MinOutcomes:   4,
		ShrinkVectors: true,
		DevBound:      func(string) int { return 1 },
		Body: func(r *core.Run, x *explore.X) {
			part := x.Choose(2)
			if part == 0 {
				c06Selection(r, x)
			} else {
				c06Decoding(r, x)
			}
		},
	})
}

func c06Selection(r *core.Run, x *explore.X) {
	declared := explore.Subset(x, c06Declarable)
	header := explore.Pick(x, c06Headers)
	bodyKind := explore.Pick(x, []string{"selected-marker", "other-marker", "none", "empty"})
	required := x.Bool()
	order := x.Deviate(2)
	if !r.Own(x) {
		return
	}
	if len(declared) == 0 || len(declared) > 3 {
		return
	}
	marker := func(key string) string {
		for i, d := range c06Declarable {
			if d == key {
				return fmt.Sprintf("m%d", i)
			}
		}
		return "mX"
	}
	content := openapi3.Content{}
	for _, d := range declared {
		s, _ := loadSchema(m("type", "string", "enum", l(marker(d))))
		content[d] = &openapi3.MediaType{Schema: &openapi3.SchemaRef{Value: s}}
	}
	rb := &openapi3.RequestBody{Required: required, Content: content}
	sel, ok := ref.SelectContent(declared, header)
	sig := fmt.Sprintf("select declared=%v header=%q body=%s required=%v", declared, header, bodyKind, required)
	var body []byte
	decodable := true
	switch bodyKind {
	case "selected-marker":
		mk := "mX"
		if ok {
			mk = marker(sel)
		}
		body, decodable = c06BodyFor(header, mk)
	case "other-marker":
		other := ""
		for _, d := range declared {
			if !ok || d != sel {
				other = d
			}
		}
		if other == "" {
			return
		}
		body, decodable = c06BodyFor(header, marker(other))
	case "empty":
		body = []byte{}
	}
	in := c06Input(body, header, &openapi3filter.Options{})
	r.Case(fmt.Sprintf("%s|%d", sig, order), body != nil && len(body) > 0)
	if r.WantSample(x) {
		r.Sample(x, map[string]any{"case": sig, "body": string(body), "selected_by_model": sel, "declared": ok})
	}
	detail := map[string]any{"case": sig, "body": string(body), "selected_by_model": sel, "content_type_declared": ok}
	var err error
	r.Exec(order)
	if !r.Guard(x, "ValidateRequestBody", detail, func() { err = openapi3filter.ValidateRequestBody(context.Background(), in, rb) }) {
		return
	}
	r.Validated(1)
	fail := func(clause string) {
		d := cloneDetailAny(detail)
		if err != nil {
			d["error"] = err.Error()
		}
		r.Fail(x, clause, sig, d)
	}
	switch {
	case len(body) == 0:
		r.Outcome(fmt.Sprintf("no-body required=%v ok=%v", required, err == nil))
		if required {
			var re *openapi3filter.RequestError
			if err == nil || !(errors.As(err, &re) && re.Err == openapi3filter.ErrInvalidRequired) {
				fail("missing-required-body-not-reported")
			}
		} else if err != nil {
			fail("absent-optional-body-rejected")
		}
	case !ok:
		r.Outcome(fmt.Sprintf("undeclared ok=%v", err == nil))
		if err == nil {
			fail("undeclared-content-type-accepted")
		}
	case !decodable:
		r.Outcome(fmt.Sprintf("no-decoder ok=%v", err == nil))
		if err == nil {
			fail("undecodable-body-accepted")
		}
	case bodyKind == "selected-marker":
		r.Outcome(fmt.Sprintf("selected ok=%v", err == nil))
		if err != nil {
			fail("precedence:entry-selected-by-the-documented-order-rejects-its-own-marker")
		}
	case bodyKind == "other-marker":
		r.Outcome(fmt.Sprintf("other ok=%v", err == nil))
		if err == nil {
			fail("precedence:body-of-another-entry-accepted")
		}
	}
}

var c06ErrPath = regexp.MustCompile(`(?:Error at "/|property ")([A-Za-z]+)`)

func c06Decoding(r *core.Run, x *explore.X) {
	format := explore.Pick(x, []string{"json", "urlencoded", "multipart", "multipart-json-parts"})
	req := explore.Pick(x, c06Requireds)
	if r.Tier == "thorough" && len(c06Values) == c06QuickValues {
		c06Values = append(c06Values, c06ThoroughValues...)
	}
	vi := x.Choose(len(c06Values))
	enc := c06Encs[0]
	if format == "urlencoded" {
		enc = explore.Pick(x, c06Encs)
	}
	badInt := x.Bool()
	exclude := x.Bool()
	// the object schema directly, or one level deeper as the only alternative of a composition (the request reading
	// must reach it there too); JSON bodies only, the form decoders read the properties off the schema
	wrap := ""
	if format == "json" {
		wrap = explore.Pick(x, []string{"", "allOf", "anyOf", "oneOf"})
	}
	order := x.Deviate(2)
	if !r.Own(x) {
		return
	}
	value := c06Values[vi]
	if badInt {
		if _, has := value["i"]; !has {
			return
		}
	}
	raw := c06ObjSchema(req)
	if wrap != "" {
		raw = m(wrap, l(raw))
	}
	schema, err := loadSchema(raw)
	if err != nil {
		panic(err)
	}
	mt := &openapi3.MediaType{Schema: &openapi3.SchemaRef{Value: schema}}
	if format == "urlencoded" && enc.style != "" {
		e := enc.explode
		mt.Encoding = map[string]*openapi3.Encoding{"a": {Style: enc.style, Explode: &e}}
	}
	body, ct := c06Encode(format, value, enc, badInt)
	key := strings.SplitN(ct, ";", 2)[0]
	rb := &openapi3.RequestBody{Required: true, Content: openapi3.Content{key: mt}}
	sig := fmt.Sprintf("decode format=%s encoding=%s required=%v value=%s bad_integer=%v ExcludeReadOnlyValidations=%v", format, enc.name, req, CanonJSON(value), badInt, exclude)
	if wrap != "" {
		sig += " schema-under=" + wrap
	}
	r.Case(fmt.Sprintf("%s|%d", sig, order), len(body) > 0)
	if r.WantSample(x) {
		r.Sample(x, map[string]any{"case": sig, "body": string(body), "content_type": ct})
	}
	detail := map[string]any{"case": sig, "body": string(body), "content_type": ct, "schema": CanonJSON(raw)}
	if len(body) == 0 {
		return // the empty object has no urlencoded/multipart rendering: covered by part A's empty body
	}
	// (a) the public decoder returns the value
	if !badInt {
		var decoded any
		var derr error
		dec := openapi3filter.RegisteredBodyDecoder(key)
		hdr := http.Header{"Content-Type": {ct}}
		encFn := func(name string) *openapi3.Encoding { return mt.Encoding[name] }
		r.Exec(order)
		if !r.Guard(x, "BodyDecoder", detail, func() { decoded, derr = dec(bytes.NewReader(body), hdr, mt.Schema, encFn) }) {
			return
		}
		if derr != nil {
			d := cloneDetailAny(detail)
			d["decode_error"] = derr.Error()
			r.Fail(x, "decoder-fails-on-valid-encoding [format="+format+"]", sig, d)
		} else if !ref.Equal(normJSON(decoded), map[string]any(value)) {
			d := cloneDetailAny(detail)
			d["decoded"] = CanonJSON(normJSON(decoded))
			// the format and the fields that came out wrong are the violation's identity
			var wrong []string
			dm, _ := normJSON(decoded).(map[string]any)
			for _, k := range sortedKeys(value) {
				if got, ok := dm[k]; !ok || !ref.Equal(got, value[k]) {
					wrong = append(wrong, k)
				}
			}
			for _, k := range sortedKeys(dm) {
				if _, ok := value[k]; !ok {
					wrong = append(wrong, "+"+k)
				}
			}
			r.Fail(x, fmt.Sprintf("decoded-body-differs [format=%s fields=%s]", format, strings.Join(wrong, ",")), sig, d)
		}
	}
	// (b) the verdict
	in := c06Input(body, ct, &openapi3filter.Options{ExcludeReadOnlyValidations: exclude})
	var verr error
	r.Exec(order)
	if !r.Guard(x, "ValidateRequestBody", detail, func() { verr = openapi3filter.ValidateRequestBody(context.Background(), in, rb) }) {
		return
	}
	r.Validated(1)
	mode := ref.AsRequest
	if exclude {
		mode = ref.AsRequestNoReadOnlyCheck
	}
	want := ref.Valid(raw, map[string]any(value), mode) == ref.Accept
	if badInt {
		want = false
	}
	r.Outcome(fmt.Sprintf("body want_accept=%v accepted=%v", want, verr == nil))
	if (verr == nil) != want {
		d := cloneDetailAny(detail)
		if verr != nil {
			d["error"] = verr.Error()
		}
		clause := "accepts-invalid-body"
		if want {
			clause = "rejects-valid-body"
		}
		if badInt {
			clause = "field-that-is-not-text-of-its-type-accepted"
		}
		// the format and the fields the error names are the violation's identity
		fields := map[string]bool{}
		if verr != nil {
			for _, mm := range c06ErrPath.FindAllStringSubmatch(verr.Error(), -1) {
				fields[mm[1]] = true
			}
		}
		r.Fail(x, fmt.Sprintf("%s [format=%s fields=%s]", clause, format, strings.Join(sortedKeys(fields), ",")), sig, d)
	}
	_ = sort.Strings
}
