package checks

import (
	"bytes"
	"context"
	"encoding/json"
	"fmt"
	"io"
	"net/http"
	"net/http/httptest"
	"strings"

	"github.com/getkin/kin-openapi/openapi3"
	"github.com/getkin/kin-openapi/openapi3filter"
	"github.com/getkin/kin-openapi/routers"
	"github.com/getkin/kin-openapi/routers/gorillamux"
	"github.com/getkin/kin-openapi/routers/legacy"

	"verifmc/core"
	"verifmc/explore"
)

// schemas planted at traffic-reachable positions: plain types, compositions and the legal-but-unusual shapes
func c10Schemas() []map[string]any {
	out := []map[string]any{
		m(), m("type", "integer"), m("type", "number"), m("type", "boolean"), m("type", "string"), m("type", "array", "items", m("type", "integer")), m("type", "array", "items", m("type", "string")),
		m("type", "object", "properties", m("a", m("type", "integer"), "b", m("type", "string"))),
		m("type", "object", "properties", m("a", m("type", "object", "properties", m("b", m("type", "integer"))), "l", m("type", "array", "items", m("type", "integer")))),
		m("type", "object", "additionalProperties", m("type", "integer")), m("type", "object", "additionalProperties", false),
		m("type", "array", "items", m("type", "object", "properties", m("a", m("type", "integer")))), m("type", "array", "items", m("type", "array", "items", m("type", "integer"))),
		// legal but unusual
		m("type", "number", "exclusiveMinimum", true), m("type", "number", "exclusiveMaximum", true), m("type", "integer", "exclusiveMinimum", true, "exclusiveMaximum", true),
		m("type", "number", "multipleOf", 0.0), m("type", "integer", "multipleOf", -2.0), m("type", "number", "minimum", 5.0, "maximum", 1.0),
		m("type", "string", "format", "date"), m("type", "string", "format", "nosuchformat"), m("type", "integer", "format", "int32"), m("type", "string", "format", "byte"), m("type", "string", "format", "binary"),
		m("type", "string", "minLength", 3.0, "maxLength", 1.0), m("type", "array", "items", m("type", "integer"), "uniqueItems", true, "minItems", 2.0),
		m("type", "string", "enum", l()), m("enum", l(nil, 1.0, "a", l(1.0), m("a", 1.0))), m("nullable", true), m("type", "string", "nullable", true, "default", nil),
		m("allOf", l(m("type", "integer"), m("minimum", 1.0))), m("oneOf", l(m("type", "integer"), m("type", "boolean"))), m("anyOf", l(m("type", "integer"), m("type", "string"))), m("not", m("type", "string")),
		m("allOf", l()), m("oneOf", l(m(), m())), m("type", "object", "required", l("zz")), m("type", "object", "properties", m("a", m("readOnly", true, "type", "string"), "b", m("writeOnly", true, "type", "string")), "required", l("a", "b")),
		m("type", "integer", "default", "not-an-integer-default"), m("type", "array", "items", m("type", "integer"), "default", l(1.0, 2.0)), m("type", "object", "properties", m("a", m("type", "integer", "default", 1.0))),
		m("$ref", "#/components/schemas/Rec"), m("type", "array", "items", m("$ref", "#/components/schemas/Rec")),
		// patterns Go's engine cannot compile: admitted by DisableSchemaPatternValidation
		m("type", "string", "pattern", "(?!x)a"), m("type", "array", "items", m("type", "string", "pattern", "(?=y)b")), m("type", "object", "properties", m("a", m("type", "string", "pattern", "(?!x)a"))),
		m("type", "object", "discriminator", m("propertyName", "t"), "oneOf", l(m("$ref", "#/components/schemas/Rec"), m("type", "object", "properties", m("t", m("type", "string"))))),
	}
	return out
}

var c10ParamCells = []struct{ in, style, explode string }{
	{"query", "", ""}, {"query", "form", "false"}, {"query", "spaceDelimited", "false"}, {"query", "pipeDelimited", "true"}, {"query", "deepObject", "true"},
	{"path", "", ""}, {"path", "label", "true"}, {"path", "matrix", "false"}, {"path", "matrix", "true"},
	{"header", "", ""}, {"header", "simple", "true"}, {"cookie", "", ""}, {"cookie", "form", "false"},
	{"query", "content", ""}, {"query", "content-no-schema", ""}, {"header", "content", ""}, {"header", "content-no-schema", ""}, {"cookie", "content", ""}, {"path", "content", ""},
}

var c10Texts = []string{
	"", "1", "x", "1,2", "a,b", "1|2", "1 2", "true", "null", "{}", "[]", "{\"a\":1}", "[1,2]", "a=1,b=2", "a,1,b,x", ".1.2", ";p=1", ";p=1;p=2", ";a=1;b=2", ";", ".", "=", "%zz", "\xff\xfe", "1e999", "99999999999999999999999", "-0", "0x10", " 1 ",
	strings.Repeat("9", 400),
}

var c10Queries = []string{
	"", "p", "p=", "p=x", "p=1&p=2", "p[a]=1&p[a][b]=2", "p[", "p[]=1", "%zz", "p[a][-1]=3", "p[l][-1]=3", "p[0]=1", "p[a]=1&p[a]=2", "p[a][b][c][d]=1", "p[l][0]=1&p[l][2]=3", "p[l][x]=1", "p[a]=x&p[l]=y", "p]=1", "p[a=1", "p=1;p=2",
	"p[a][b]=1&p[a]=2", "p=%00", "p[l][99999999]=1", "p[l][0][0]=1", "a=1&b=2", "=1", "&&&", "p[]", "p[][]=1", "p[a].b=1",
}

var c10Bodies = [][]byte{
	nil, {}, []byte("null"), []byte("{}"), []byte("[]"), []byte(`{"a":1`), []byte(`{"a":1,"b":"x","l":[1,2]}`), []byte(`[1,2]`), []byte(`"s"`), []byte("1e999"), []byte("99999999999999999999999999"), []byte("\xff\xfe{"),
	[]byte(strings.Repeat("[", 3000) + strings.Repeat("]", 3000)), []byte(strings.Repeat(`{"a":`, 1500) + "1" + strings.Repeat("}", 1500)), []byte("a=1&b=x&l=1&l=2"), []byte("a=%zz"), []byte("a[b]=1"),
	[]byte("--B\r\nContent-Disposition: form-data; name=\"a\"\r\n\r\n1\r\n--B--\r\n"), []byte("--B\r\nContent-Disposition: form-data; name=\"zz\"\r\n\r\n1\r\n--B--\r\n"), []byte("--B\r\n\r\n--B--"), []byte("--B\r\nContent-Disposition: form-data; name=\"a\"\r\nContent-Type: application/json\r\n\r\n{\r\n--B--\r\n"),
	[]byte("a,b\n1,2\n"), []byte("a: 1\nb: [x"), []byte("PK\x03\x04garbage"), []byte(`{"t":"zz"}`), []byte(`{"t":1}`), []byte(`{"rec":{"rec":{"rec":null}}}`),
}

var c10ContentTypes = []string{"", "application/json", "application/json; charset=utf-8", "application/x-www-form-urlencoded", "multipart/form-data; boundary=B", "multipart/form-data", "text/plain", "application/octet-stream", "application/x-yaml",
	"text/csv", "application/zip", "bogus", "application/json;;;", "multipart/form-data; boundary=", "a/b; c=\"", "*/*"}

var c10DeclaredTypes = []string{"application/json", "application/x-www-form-urlencoded", "multipart/form-data", "text/plain", "application/octet-stream", "application/x-yaml", "text/csv", "application/zip", "*/*", "application/*"}

func c10Doc(family string, cell int, schema map[string]any, declared string) map[string]any {
	comps := m("schemas", m("Rec", m("type", "object", "properties", m("rec", m("$ref", "#/components/schemas/Rec"), "t", m("type", "string")))))
	op := m("responses", m("200", m("description", "ok")))
	path := "/r"
	switch family {
	case "param":
		c := c10ParamCells[cell]
		p := m("name", "p", "in", c.in)
		switch c.style {
		case "content":
			p["content"] = m("application/json", m("schema", schema))
		case "content-no-schema":
			p["content"] = m("application/json", m())
		case "":
			p["schema"] = schema
		default:
			p["schema"] = schema
			p["style"] = c.style
			p["explode"] = c.explode == "true"
		}
		if c.in == "path" {
			p["required"] = true
			path = "/r/{p}"
		}
		op["parameters"] = l(p)
	case "body":
		mt := m("schema", schema)
		if declared == "multipart/form-data" || declared == "application/x-www-form-urlencoded" {
			mt["encoding"] = m("l", m("style", "pipeDelimited", "explode", false), "a", m("contentType", "application/json"))
		}
		op["requestBody"] = m("content", m(declared, mt))
	case "body-no-schema":
		op["requestBody"] = m("required", true, "content", m(declared, m()))
	case "response":
		hs := m("X-S", m("schema", schema), "X-C", m("content", m("application/json", m("schema", schema))), "X-N", m("content", m("application/json", m())), "X-R", m("required", true, "schema", schema))
		op["responses"] = m("200", m("description", "ok", "headers", hs, "content", m(declared, m("schema", schema))), "default", m("description", "d"))
	}
	return m("openapi", "3.0.3", "info", m("title", "t", "version", "1"), "paths", m(path, m("post", op, "get", m("responses", m("200", m("description", "ok"))))), "components", comps)
}

type c10Loaded struct {
	doc     *openapi3.T
	valid   bool
	routers []routers.Router
	json    string
}

func init() {
	schemas := c10Schemas()
	cache := map[string]*c10Loaded{}
	load := func(r *core.Run, x *explore.X, raw map[string]any) *c10Loaded {
		key := CanonJSON(raw)
		if e, ok := cache[key]; ok {
			return e
		}
		e := &c10Loaded{json: key}
		cache[key] = e
		doc, err := openapi3.NewLoader().LoadFromData([]byte(key))
		if err != nil {
			return e
		}
		e.doc = doc
		// the gate: the document passes validation (under the default options, or with pattern/format leniency where the shape needs it)
		if doc.Validate(context.Background()) != nil && doc.Validate(context.Background(), openapi3.DisableSchemaPatternValidation()) != nil {
			return e
		}
		e.valid = true
		if !r.Guard(x, "NewRouter", map[string]any{"document": key}, func() {
			if g, err := gorillamux.NewRouter(doc); err == nil {
				e.routers = append(e.routers, g)
			}
			if lg, err := legacy.NewRouter(doc); err == nil {
				e.routers = append(e.routers, lg)
			}
		}) {
			delete(cache, key) // a failed construction is not remembered: every execution on this document reports it
		}
		return e
	}
	core.Register(&core.Check{
		ID: "C10",
		Rule: "documents: 45 schemas (every type, nested objects/arrays, compositions, and the legal-but-unusual shapes: exclusive flags without bounds, multipleOf 0 and negative, inverted bounds, unknown and known formats, empty enum, recursive references, discriminator) planted at every traffic-reachable position " +
			"(19 parameter cells incl. parameters defined by content with and without schema; request bodies under 10 declared media types incl. wildcards and per-property encodings; response headers by schema, by content, by content without schema; response bodies), gated by Validate; " +
			"traffic: for parameters 30 texts x (for query) 30 raw query strings; for bodies 27 byte strings x 16 Content-Type headers; methods {GET, POST, HEAD, PROPFIND, empty, lower case}; 14 hostile paths; responses with 6 status codes. Every option set in {default, MultiError, ExcludeRequestBody+ExcludeRequestQueryParams, SkipSettingDefaults}. " +
			"Both routers, ValidateRequest, ConvertErrors, ValidateResponse, the middleware (strict and not) and ValidationHandler are driven; each must return. non-trivial = the document passed the gate",
		Assumptions: []string{
			"the oracle is 'returns normally within the step budget' (panic, step budget, worker death = violation)",
			"documents that fail Validate are outside the property and are skipped (counted)",
		},
		Bounds:        func(tier string) map[string]any { return map[string]any{"schemas": len(schemas), "param_cells": len(c10ParamCells), "texts": len(c10Texts), "queries": len(c10Queries), "bodies": len(c10Bodies), "content_types": len(c10ContentTypes)} },
		MinOutcomes:   2,
		ShrinkVectors: false,
		DevBound:      func(string) int { return 1 },
		CapSeconds: func(tier string) int {
			if tier == "thorough" {
				return 1500
			}
			return 100
		},
		Body: func(r *core.Run, x *explore.X) {
			thorough := r.Tier == "thorough"
			family := explore.Pick(x, []string{"param", "body", "body-no-schema", "response", "routing"})
			var raw map[string]any
			si, cell := 0, 0
			declared := "application/json"
			text, query, ct := "", "", ""
			var body []byte
			switch family {
			case "param":
				cell = x.Choose(len(c10ParamCells))
				si = x.Choose(len(schemas))
				if c10ParamCells[cell].in == "query" {
					query = explore.Pick(x, c10Queries)
					if query == "" {
						text = explore.Pick(x, c10Texts)
					}
				} else {
					text = explore.Pick(x, c10Texts)
				}
			case "body", "body-no-schema":
				declared = explore.Pick(x, c10DeclaredTypes)
				if family == "body" {
					if thorough {
						si = x.Choose(len(schemas))
					} else {
						si = 3 * x.Choose(len(schemas)/3) // quick tier: every third schema under the body decoders
					}
				}
				body = explore.Pick(x, c10Bodies)
				if thorough {
					ct = explore.Pick(x, c10ContentTypes)
				} else {
					// quick tier: the declared type itself, absent, and three hostile headers
					ct = explore.Pick(x, []string{declared, "", "bogus", "multipart/form-data", "application/json;;;", "multipart/form-data; boundary=B"})
				}
			case "response":
				declared = explore.Pick(x, []string{"application/json", "text/plain", "*/*", "application/x-www-form-urlencoded"})
				if thorough {
					si = x.Choose(len(schemas))
					text = explore.Pick(x, c10Texts[:14])
					body = explore.Pick(x, c10Bodies[:14])
				} else {
					si = 2 * x.Choose(len(schemas)/2)
					text = explore.Pick(x, c10Texts[:8])
					body = explore.Pick(x, c10Bodies[:8])
				}
				ct = explore.Pick(x, []string{"application/json", "", "bogus", "text/plain"})
			case "routing":
				si = x.Choose(8) // server form; 6 and 7: no servers, a further path with four / six template variables
				text = explore.Pick(x, []string{"/r", "/r/", "//r", "/r//", "/r/%2F", "/r/%zz", "*", "/r/a/b/c", "/R", "/r?", "/r;x", "/r/..", "/../r", "/r/%00", "/q/1/2/3/4", "/q/1/2/3/4/5/6"})
				query = explore.Pick(x, []string{"GET", "POST", "HEAD", "PROPFIND", "get", "OPTIONS", "CONNECT", "TRACE"})
			}
			optSet := 0
			if thorough {
				optSet = x.Choose(4)
			} else {
				optSet = x.Choose(2)
			}
			order := x.Deviate(2)
			if !r.Own(x) {
				return
			}
			if family == "routing" {
				raw = c10Doc("param", 5*(len(text)%2), schemas[1], declared) // a literal path /r or a templated one /r/{p}
				switch si {
				case 1:
					raw["servers"] = l(m("url", "/v1"))
				case 2:
					raw["servers"] = l(m("url", "http://h.example/v1"))
				case 3:
					raw["servers"] = l(m("url", "https://{env}.example:{port}/{base}", "variables", m("env", m("default", "prod"), "port", m("default", "8443"), "base", m("default", "v1"))))
				case 4:
					raw["servers"] = l(m("url", "{scheme}://h.example", "variables", m("scheme", m("default", "https", "enum", l("http", "https")))))
				case 5:
					raw["servers"] = l(m("url", "/"), m("url", "http://h.example"))
				case 6, 7:
					// templates with many variables (real APIs nest resources four and more levels deep)
					vars := []string{"a", "b", "c", "d", "e", "f"}[:map[int]int{6: 4, 7: 6}[si]]
					tpl, params := "/q", []any{}
					for _, v := range vars {
						tpl += "/{" + v + "}"
						params = append(params, m("name", v, "in", "path", "required", true, "schema", m("type", "string")))
					}
					raw["paths"].(map[string]any)[tpl] = m("parameters", params, "get", m("responses", m("200", m("description", "ok"))))
				}
			} else {
				raw = c10Doc(family, cell, schemas[si], declared)
			}
			ld := load(r, x, raw)
			sig := fmt.Sprintf("family=%s cell=%v schema=%s declared=%s text=%q query=%q content-type=%q body=%.40q options=%d", family, c10ParamCells[cell], CanonJSON(schemas[si]), declared, text, query, ct, body, optSet)
			r.Case(sig+fmt.Sprint(order), ld.valid)
			if !ld.valid {
				r.Outcome("document-fails-the-gate(skipped)")
				return
			}
			if r.WantSample(x) {
				r.Sample(x, map[string]any{"case": sig})
			}
			detail := map[string]any{"case": sig, "document": ld.json}
			opts := &openapi3filter.Options{}
			switch optSet {
			case 1:
				opts.MultiError = true
			case 2:
				opts.ExcludeRequestBody, opts.ExcludeRequestQueryParams = true, true
			case 3:
				opts.SkipSettingDefaults = true
			}
			opts.AuthenticationFunc = openapi3filter.NoopAuthenticationFunc
			// build the request
			method, target := "POST", "http://h.example/r"
			c := c10ParamCells[cell]
			if family == "routing" {
				method, target = query, "http://h.example"+text
				if strings.HasPrefix(text, "*") {
					target = "http://h.example/" + text
				}
			} else if family == "param" {
				switch c.in {
				case "query":
					if query != "" {
						target += "?" + query
					} else {
						target += "?p=" + strings.ReplaceAll(strings.ReplaceAll(text, "%", "%25"), " ", "+")
						if text == "%zz" {
							target = "http://h.example/r?p=%zz"
						}
					}
				case "path":
					seg := strings.NewReplacer("%", "%25", " ", "%20", "?", "%3F", "#", "%23", "/", "%2F", "\xff", "%FF", "\xfe", "%FE").Replace(text)
					if seg == "" {
						seg = "%20"
					}
					target = "http://h.example/r/" + seg
				}
			}
			var rd io.Reader
			if body != nil {
				rd = bytes.NewReader(body)
			}
			var req *http.Request
			okReq := r.Guard(x, "NewRequest", detail, func() {
				defer func() {
					if p := recover(); p != nil {
						req = nil // httptest.NewRequest panics on a malformed request line: the request cannot exist
					}
				}()
				req = httptest.NewRequest(method, target, rd)
			})
			if !okReq || req == nil {
				r.Outcome("request-not-constructible")
				return
			}
			if ct != "" {
				req.Header.Set("Content-Type", ct)
			}
			if family == "param" {
				switch c.in {
				case "header":
					req.Header["P"] = []string{text}
					if text == "1,2" {
						req.Header["P"] = []string{"1", "2"}
					}
				case "cookie":
					req.Header.Set("Cookie", "p="+text+"; =x; y")
				}
			}
			r.Validated(1)
			outcome := "no-route"
			for ri, router := range ld.routers {
				var route *routers.Route
				var pp map[string]string
				var ferr error
				r.Exec(order)
				if !r.Guard(x, fmt.Sprintf("FindRoute(router %d)", ri), detail, func() { route, pp, ferr = router.FindRoute(req) }) {
					outcome = "panic"
					continue
				}
				if ferr != nil {
					r.Guard(x, "ConvertErrors(route error)", detail, func() { _ = openapi3filter.ConvertErrors(ferr) })
					continue
				}
				if route == nil || route.Operation == nil {
					continue
				}
				outcome = "validated"
				in := &openapi3filter.RequestValidationInput{Request: req, PathParams: pp, Route: route, Options: opts}
				var verr error
				r.Exec(order)
				if !r.Guard(x, "ValidateRequest", detail, func() { verr = openapi3filter.ValidateRequest(context.Background(), in) }) {
					outcome = "panic"
					continue
				}
				// the same request a second time (process-wide caches are warm now)
				if body == nil || len(body) < 4096 {
					var rd3 io.Reader
					if body != nil {
						rd3 = bytes.NewReader(body)
					}
					req3 := httptest.NewRequest(method, target, rd3)
					req3.Header = req.Header.Clone()
					in3 := &openapi3filter.RequestValidationInput{Request: req3, PathParams: pp, Route: route, Options: opts}
					r.Exec(order)
					if !r.Guard(x, "ValidateRequest(second time)", detail, func() { _ = openapi3filter.ValidateRequest(context.Background(), in3) }) {
						outcome = "panic"
						continue
					}
				}
				r.Max("max_steps_observed", r.Steps())
				r.Guard(x, "ConvertErrors", detail, func() {
					if me, ok := verr.(openapi3.MultiError); ok {
						for _, e := range me {
							_ = openapi3filter.ConvertErrors(e)
						}
					}
					if e := openapi3filter.ConvertErrors(verr); e != nil {
						_ = e.Error()
					}
				})
				if family == "response" || ri == 0 {
					for _, status := range []int{200, 204, 404, 0, 99, 1000} {
						hdr := http.Header{}
						if ct != "" {
							hdr.Set("Content-Type", ct)
						}
						if family == "response" {
							hdr["X-S"], hdr["X-C"], hdr["X-N"] = []string{text}, []string{text}, []string{text}
							if status != 204 {
								hdr["X-R"] = []string{text}
							}
						}
						rin := &openapi3filter.ResponseValidationInput{RequestValidationInput: in, Status: status, Header: hdr, Options: opts}
						if body != nil {
							rin.SetBodyBytes(body)
						} else {
							rin.Body = io.NopCloser(bytes.NewReader(nil))
						}
						r.Exec(order)
						r.Guard(x, "ValidateResponse", detail, func() {
							if e := openapi3filter.ValidateResponse(context.Background(), rin); e != nil {
								_ = e.Error()
							}
						})
						if family != "response" {
							break
						}
					}
				}
			}
			// the middleware and the older handler over the first router
			if len(ld.routers) > 0 && (thorough || optSet == 0) {
				for _, strict := range []bool{false, true} {
					v := openapi3filter.NewValidator(ld.routers[0], openapi3filter.Strict(strict), openapi3filter.ValidationOptions(*opts))
					h := v.Middleware(http.HandlerFunc(func(w http.ResponseWriter, rq *http.Request) {
						if ct != "" {
							w.Header().Set("Content-Type", ct)
						}
						w.WriteHeader(200)
						w.Write(body)
					}))
					var rd2 io.Reader
					if body != nil {
						rd2 = bytes.NewReader(body)
					}
					req2 := httptest.NewRequest(method, target, rd2)
					req2.Header = req.Header.Clone()
					r.Exec(order)
					r.Guard(x, fmt.Sprintf("Middleware(strict=%v)", strict), detail, func() { h.ServeHTTP(httptest.NewRecorder(), req2) })
				}
			}
			r.Outcome(outcome)
			_ = json.Marshal
		},
	})
}
