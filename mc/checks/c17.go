package checks

import (
	"context"
	"encoding/json"
	"fmt"
	"strings"

	"github.com/getkin/kin-openapi/openapi2"
	"github.com/getkin/kin-openapi/openapi2conv"
	"github.com/getkin/kin-openapi/openapi3"

	"verifmc/core"
	"verifmc/explore"
	"verifmc/ref"
)

func c17Base() map[string]any {
	return m("swagger", "2.0", "info", m("title", "t", "version", "1"), "host", "h.example", "basePath", "/v1", "schemes", l("https"),
		"consumes", l("application/json"), "produces", l("application/json"),
		"paths", m("/p/{id}", m(
			"parameters", l(m("name", "id", "in", "path", "required", true, "type", "integer")),
			"get", m("operationId", "getP", "responses", m("200", m("description", "ok"))),
			"post", m("operationId", "postP", "responses", m("201", m("description", "created"))))),
		"definitions", m("D", m("type", "object", "properties", m("a", m("type", "string")))))
}

type c17Feature struct {
	name  string
	apply func(d map[string]any)
}

func c17Op(d map[string]any, meth string) map[string]any {
	return d["paths"].(map[string]any)["/p/{id}"].(map[string]any)[meth].(map[string]any)
}

func c17AddParam(op map[string]any, p map[string]any) {
	lst, _ := op["parameters"].([]any)
	op["parameters"] = append(lst, p)
}

func c17Features() []c17Feature {
	var fs []c17Feature
	add := func(name string, f func(d map[string]any)) { fs = append(fs, c17Feature{name, f}) }
	// non-body parameters: location x type x one constraint
	type con struct {
		key string
		val any
		on  string // types it applies to: n numeric, s string, a array, * any
	}
	cons := []con{{"", nil, "*"}, {"required", true, "*"}, {"description", "d", "*"}, {"format", "int64", "i"}, {"format", "date", "s"}, {"default", 5.0, "n"}, {"default", "x", "s"}, {"maximum", 10.0, "n"}, {"exclusiveMaximum", true, "n"},
		{"minimum", 1.0, "n"}, {"exclusiveMinimum", true, "n"}, {"multipleOf", 2.0, "n"}, {"maxLength", 5.0, "s"}, {"minLength", 1.0, "s"}, {"pattern", "^a", "s"}, {"enum", l("a", "b"), "s"}, {"enum", l(1.0, 2.0), "n"},
		{"maxItems", 3.0, "a"}, {"minItems", 1.0, "a"}, {"uniqueItems", true, "a"}}
	types := []struct {
		name string
		set  map[string]any
		cls  string
	}{{"string", m("type", "string"), "s"}, {"integer", m("type", "integer"), "ni"}, {"number", m("type", "number"), "n"}, {"boolean", m("type", "boolean"), "b"},
		{"array-string", m("type", "array", "items", m("type", "string")), "a"}, {"array-integer", m("type", "array", "items", m("type", "integer", "minimum", 0.0), "collectionFormat", "csv"), "a"}}
	for _, in := range []string{"query", "header"} {
		for _, t := range types {
			for _, c := range cons {
				if c.on != "*" && !strings.ContainsAny(t.cls, c.on) {
					continue
				}
				in, t, c := in, t, c
				add(fmt.Sprintf("%s parameter %s %s", in, t.name, c.key), func(d map[string]any) {
					p := m("name", "q", "in", in)
					for k, v := range t.set {
						p[k] = cloneJSON(v)
					}
					if c.key != "" {
						p[c.key] = c.val
						if c.key == "exclusiveMaximum" {
							p["maximum"] = 10.0
						}
						if c.key == "exclusiveMinimum" {
							p["minimum"] = 1.0
						}
					}
					c17AddParam(c17Op(d, "get"), p)
				})
			}
		}
	}
	add("path-level query parameter", func(d map[string]any) {
		pi := d["paths"].(map[string]any)["/p/{id}"].(map[string]any)
		pi["parameters"] = append(pi["parameters"].([]any), m("name", "pl", "in", "query", "type", "string"))
	})
	add("second path with two path parameters", func(d map[string]any) {
		d["paths"].(map[string]any)["/a/{x}/{y}"] = m("get", m("operationId", "getA", "parameters", l(m("name", "x", "in", "path", "required", true, "type", "string"), m("name", "y", "in", "path", "required", true, "type", "integer", "minimum", 1.0)),
			"responses", m("200", m("description", "ok"))))
	})
	// body parameters
	for _, req := range []bool{false, true} {
		req := req
		add(fmt.Sprintf("body inline schema required=%v", req), func(d map[string]any) {
			c17AddParam(c17Op(d, "post"), m("name", "b", "in", "body", "required", req, "schema", m("type", "object", "properties", m("n", m("type", "integer", "maximum", 9.0)), "required", l("n"))))
		})
		add(fmt.Sprintf("body ref schema required=%v", req), func(d map[string]any) {
			c17AddParam(c17Op(d, "post"), m("name", "b", "in", "body", "required", req, "schema", m("$ref", "#/definitions/D")))
		})
	}
	add("body inline schema with x-nullable property", func(d map[string]any) {
		c17AddParam(c17Op(d, "post"), m("name", "b", "in", "body", "required", true, "schema", m("type", "object", "properties", m("nick", m("type", "string", "x-nullable", true), "n", m("type", "integer")))))
	})
	add("body inline schema x-nullable itself with nested x-nullable items", func(d map[string]any) {
		c17AddParam(c17Op(d, "post"), m("name", "b", "in", "body", "required", true, "schema", m("type", "object", "x-nullable", true, "properties", m("l", m("type", "array", "items", m("type", "string", "x-nullable", true))))))
	})
	for _, where := range []string{"operation", "document"} {
		for _, list := range [][]any{l("application/json", "application/xml"), l("application/xml", "application/json", "text/plain")} {
			where, list := where, list
			add(fmt.Sprintf("consumes-list on the %s %s", where, CanonJSON(list)), func(d map[string]any) {
				if where == "operation" {
					c17Op(d, "post")["consumes"] = list
				} else {
					d["consumes"] = list
				}
			})
		}
	}
	add("body array of refs", func(d map[string]any) {
		c17AddParam(c17Op(d, "post"), m("name", "b", "in", "body", "required", true, "schema", m("type", "array", "items", m("$ref", "#/definitions/D"))))
	})
	// form parameters
	for _, consumes := range []string{"application/x-www-form-urlencoded", "multipart/form-data"} {
		consumes := consumes
		add("one formData string "+consumes, func(d map[string]any) {
			op := c17Op(d, "post")
			op["consumes"] = l(consumes)
			c17AddParam(op, m("name", "f1", "in", "formData", "type", "string", "maxLength", 5.0))
		})
		add("two formData one required "+consumes, func(d map[string]any) {
			op := c17Op(d, "post")
			op["consumes"] = l(consumes)
			c17AddParam(op, m("name", "f1", "in", "formData", "type", "string", "required", true))
			c17AddParam(op, m("name", "f2", "in", "formData", "type", "integer", "minimum", 1.0))
		})
	}
	add("two formData one required, both form media types consumed", func(d map[string]any) {
		op := c17Op(d, "post")
		op["consumes"] = l("application/x-www-form-urlencoded", "multipart/form-data")
		c17AddParam(op, m("name", "f1", "in", "formData", "type", "string", "required", true))
		c17AddParam(op, m("name", "f2", "in", "formData", "type", "integer", "minimum", 1.0))
	})
	add("formData file upload", func(d map[string]any) {
		op := c17Op(d, "post")
		op["consumes"] = l("multipart/form-data")
		c17AddParam(op, m("name", "up", "in", "formData", "type", "file", "required", true))
		c17AddParam(op, m("name", "note", "in", "formData", "type", "string"))
	})
	// shared parameters / responses
	add("shared query parameter referenced from operation", func(d map[string]any) {
		d["parameters"] = m("Limit", m("name", "limit", "in", "query", "type", "integer", "maximum", 100.0))
		c17AddParam(c17Op(d, "get"), m("$ref", "#/parameters/Limit"))
	})
	add("shared query parameter named like a definition", func(d map[string]any) {
		d["parameters"] = m("D", m("name", "d", "in", "query", "type", "integer", "maximum", 100.0))
		c17AddParam(c17Op(d, "get"), m("$ref", "#/parameters/D"))
	})
	add("shared header parameter referenced from path item", func(d map[string]any) {
		d["parameters"] = m("Trace", m("name", "X-Trace", "in", "header", "type", "string", "required", true))
		pi := d["paths"].(map[string]any)["/p/{id}"].(map[string]any)
		pi["parameters"] = append(pi["parameters"].([]any), m("$ref", "#/parameters/Trace"))
	})
	add("shared body parameter", func(d map[string]any) {
		d["parameters"] = m("Body", m("name", "b", "in", "body", "required", true, "schema", m("$ref", "#/definitions/D")))
		c17AddParam(c17Op(d, "post"), m("$ref", "#/parameters/Body"))
	})
	add("shared body parameter with inline x-nullable schema", func(d map[string]any) {
		d["parameters"] = m("Body", m("name", "b", "in", "body", "required", true, "schema", m("type", "object", "properties", m("nick", m("type", "string", "x-nullable", true)))))
		c17AddParam(c17Op(d, "post"), m("$ref", "#/parameters/Body"))
	})
	add("shared formData parameter", func(d map[string]any) {
		d["parameters"] = m("F", m("name", "f", "in", "formData", "type", "string", "required", true))
		op := c17Op(d, "post")
		op["consumes"] = l("application/x-www-form-urlencoded")
		c17AddParam(op, m("$ref", "#/parameters/F"))
	})
	add("shared response", func(d map[string]any) {
		d["responses"] = m("NotFound", m("description", "nf", "schema", m("$ref", "#/definitions/D")))
		c17Op(d, "get")["responses"].(map[string]any)["404"] = m("$ref", "#/responses/NotFound")
	})
	// responses
	add("response schema inline", func(d map[string]any) {
		c17Op(d, "get")["responses"].(map[string]any)["200"] = m("description", "ok", "schema", m("type", "array", "items", m("type", "integer", "minimum", 0.0)))
	})
	add("response schema ref", func(d map[string]any) {
		c17Op(d, "get")["responses"].(map[string]any)["200"] = m("description", "ok", "schema", m("$ref", "#/definitions/D"))
	})
	add("response default and second code", func(d map[string]any) {
		rs := c17Op(d, "get")["responses"].(map[string]any)
		rs["default"] = m("description", "fallback")
		rs["404"] = m("description", "nf")
	})
	for _, hc := range []con{{"", nil, "*"}, {"maximum", 10.0, "n"}, {"minimum", 1.0, "n"}, {"description", "d", "*"}, {"format", "int32", "n"}, {"enum", l(1.0, 2.0), "n"}, {"default", 1.0, "n"}, {"multipleOf", 2.0, "n"}, {"exclusiveMaximum", true, "n"}} {
		hc := hc
		add("response header integer "+hc.key, func(d map[string]any) {
			h := m("type", "integer")
			if hc.key != "" {
				h[hc.key] = hc.val
				if hc.key == "exclusiveMaximum" {
					h["maximum"] = 10.0
				}
			}
			c17Op(d, "get")["responses"].(map[string]any)["200"] = m("description", "ok", "headers", m("X-Rate", h))
		})
	}
	add("response header array", func(d map[string]any) {
		c17Op(d, "get")["responses"].(map[string]any)["200"] = m("description", "ok", "headers", m("X-List", m("type", "array", "items", m("type", "string"), "maxItems", 3.0)))
	})
	// definitions
	defKW := []con{{"title", "T", "*"}, {"description", "d", "*"}, {"maxProperties", 4.0, "*"}, {"minProperties", 1.0, "*"}, {"required", l("a"), "*"}, {"additionalProperties", true, "*"}, {"additionalProperties", false, "*"},
		{"additionalProperties", m("type", "integer", "maximum", 9.0), "*"}, {"additionalProperties", m("$ref", "#/definitions/D"), "*"}, {"discriminator", "a", "*"}, {"x-nullable", true, "*"}, {"readOnly", true, "*"},
		{"example", m("a", "x"), "*"}, {"default", m("a", "x"), "*"}, {"enum", l(m("a", "x")), "*"}}
	for _, c := range defKW {
		c := c
		add(fmt.Sprintf("definition object keyword %s=%s", c.key, CanonJSON(c.val)), func(d map[string]any) {
			e := m("type", "object", "properties", m("a", m("type", "string")))
			e[c.key] = c.val
			if c.key == "discriminator" {
				e["required"] = l("a")
			}
			d["definitions"].(map[string]any)["E"] = e
		})
	}
	propKW := []con{{"format", "int64", "*"}, {"maximum", 10.0, "*"}, {"exclusiveMaximum", true, "*"}, {"minimum", 1.0, "*"}, {"exclusiveMinimum", true, "*"}, {"multipleOf", 2.0, "*"}, {"enum", l(1.0, 2.0), "*"}, {"default", 1.0, "*"}, {"x-nullable", true, "*"}, {"readOnly", true, "*"}, {"description", "d", "*"}, {"example", 1.0, "*"}}
	for _, c := range propKW {
		c := c
		add(fmt.Sprintf("definition integer property keyword %s", c.key), func(d map[string]any) {
			p := m("type", "integer")
			p[c.key] = c.val
			if c.key == "exclusiveMaximum" {
				p["maximum"] = 10.0
			}
			if c.key == "exclusiveMinimum" {
				p["minimum"] = 1.0
			}
			d["definitions"].(map[string]any)["E"] = m("type", "object", "properties", m("n", p))
		})
	}
	for _, c := range []con{{"maxLength", 5.0, "*"}, {"minLength", 1.0, "*"}, {"pattern", "^a", "*"}, {"format", "date-time", "*"}, {"enum", l("a"), "*"}} {
		c := c
		add(fmt.Sprintf("definition string property keyword %s", c.key), func(d map[string]any) {
			p := m("type", "string")
			p[c.key] = c.val
			d["definitions"].(map[string]any)["E"] = m("type", "object", "properties", m("s", p))
		})
	}
	for _, c := range []con{{"maxItems", 3.0, "*"}, {"minItems", 1.0, "*"}, {"uniqueItems", true, "*"}} {
		c := c
		add(fmt.Sprintf("definition array keyword %s", c.key), func(d map[string]any) {
			p := m("type", "array", "items", m("$ref", "#/definitions/D"))
			p[c.key] = c.val
			d["definitions"].(map[string]any)["E"] = p
		})
	}
	add("definition allOf ref and inline", func(d map[string]any) {
		d["definitions"].(map[string]any)["E"] = m("allOf", l(m("$ref", "#/definitions/D"), m("type", "object", "properties", m("extra", m("type", "integer", "minimum", 1.0)))))
	})
	add("definition nested properties two levels", func(d map[string]any) {
		d["definitions"].(map[string]any)["E"] = m("type", "object", "properties", m("o", m("type", "object", "properties", m("i", m("type", "object", "properties", m("leaf", m("type", "string", "maxLength", 3.0)), "required", l("leaf"))))))
	})
	add("definition property referencing another and itself", func(d map[string]any) {
		d["definitions"].(map[string]any)["E"] = m("type", "object", "properties", m("d", m("$ref", "#/definitions/D"), "self", m("$ref", "#/definitions/E"), "list", m("type", "array", "items", m("$ref", "#/definitions/E"))))
	})
	// servers
	add("no host", func(d map[string]any) { delete(d, "host") })
	add("no basePath", func(d map[string]any) { delete(d, "basePath") })
	add("two schemes", func(d map[string]any) { d["schemes"] = l("https", "http") })
	add("no schemes", func(d map[string]any) { delete(d, "schemes") })
	add("no host no basePath no schemes", func(d map[string]any) { delete(d, "host"); delete(d, "basePath"); delete(d, "schemes") })
	// security
	add("security basic document level", func(d map[string]any) {
		d["securityDefinitions"] = m("b", m("type", "basic", "description", "d"))
		d["security"] = l(m("b", l()))
	})
	for _, in := range []string{"header", "query"} {
		in := in
		add("security apiKey "+in+" operation level", func(d map[string]any) {
			d["securityDefinitions"] = m("k", m("type", "apiKey", "name", "X-Key", "in", in))
			c17Op(d, "get")["security"] = l(m("k", l()))
		})
	}
	for _, flow := range []string{"implicit", "password", "application", "accessCode"} {
		flow := flow
		add("security oauth2 "+flow, func(d map[string]any) {
			s := m("type", "oauth2", "flow", flow, "scopes", m("read", "r", "write", "w"))
			if flow == "implicit" || flow == "accessCode" {
				s["authorizationUrl"] = "https://e.example/auth"
			}
			if flow != "implicit" {
				s["tokenUrl"] = "https://e.example/token"
			}
			d["securityDefinitions"] = m("o", s)
			c17Op(d, "post")["security"] = l(m("o", l("read")))
		})
	}
	add("operation security empty list overriding document security", func(d map[string]any) {
		d["securityDefinitions"] = m("b", m("type", "basic"))
		d["security"] = l(m("b", l()))
		c17Op(d, "get")["security"] = l()
	})
	add("deprecated operation with tags summary description", func(d map[string]any) {
		op := c17Op(d, "get")
		op["deprecated"], op["tags"], op["summary"], op["description"] = true, l("t"), "s", "d"
	})
	return fs
}

// c17Slots names the parts of the skeleton a feature writes; two features sharing a slot would overwrite or contradict each other.
func c17Slots(name string) []string {
	var out []string
	has := func(sub string) bool { return strings.Contains(name, sub) }
	switch {
	case strings.HasPrefix(name, "query parameter"), strings.HasPrefix(name, "header parameter"):
		out = append(out, "param-q")
	case strings.HasPrefix(name, "body "), has("formData"), has("shared body"):
		out = append(out, "post-input")
	}
	if has("formData") || strings.HasPrefix(name, "consumes-list") {
		out = append(out, "consumes")
	}
	if strings.HasPrefix(name, "shared ") && !has("shared response") {
		out = append(out, "parameters-map")
	}
	if strings.HasPrefix(name, "response ") || has("shared response") {
		out = append(out, "get-responses")
	}
	if strings.HasPrefix(name, "definition ") {
		out = append(out, "definition-E")
	}
	if strings.HasPrefix(name, "security ") || has("overriding document security") {
		out = append(out, "security")
	}
	if has("host") || has("basePath") || has("schemes") {
		out = append(out, "servers")
	}
	return out
}

// c17DuplicateParams lists the parameter lists of a Swagger 2.0 document (path items, operations) that carry the same
// (in, name) twice or more than one body parameter; shared parameters are looked up.
func c17DuplicateParams(doc map[string]any) []string {
	var out []string
	shared, _ := doc["parameters"].(map[string]any)
	check := func(where string, list any) {
		seen := map[string]bool{}
		bodies := 0
		ps, _ := list.([]any)
		for _, p := range ps {
			pm, _ := p.(map[string]any)
			if r, ok := pm["$ref"].(string); ok {
				pm, _ = shared[strings.TrimPrefix(r, "#/parameters/")].(map[string]any)
			}
			if pm == nil {
				continue
			}
			k := fmt.Sprint(pm["in"], ":", pm["name"])
			if seen[k] {
				out = append(out, where+" "+k)
			}
			seen[k] = true
			if pm["in"] == "body" {
				bodies++
			}
		}
		if bodies > 1 {
			out = append(out, where+" has more than one body parameter")
		}
	}
	paths, _ := doc["paths"].(map[string]any)
	for _, pk := range sortedKeys(paths) {
		pi, _ := paths[pk].(map[string]any)
		check(pk, pi["parameters"])
		for _, mk := range sortedKeys(pi) {
			if op, ok := pi[mk].(map[string]any); ok && mk != "parameters" {
				check(pk+" "+mk, op["parameters"])
			}
		}
	}
	return out
}

func c17RefsOK(n any, bad *[]string) {
	switch x := n.(type) {
	case map[string]any:
		if r, ok := x["$ref"].(string); ok {
			if !(strings.HasPrefix(r, "#/definitions/") || strings.HasPrefix(r, "#/parameters/") || strings.HasPrefix(r, "#/responses/")) {
				*bad = append(*bad, r)
			}
		}
		for _, k := range sortedKeys(x) {
			if k == "example" || k == "default" || k == "enum" {
				continue
			}
			c17RefsOK(x[k], bad)
		}
	case []any:
		for _, e := range x {
			c17RefsOK(e, bad)
		}
	}
}

func init() {
	var feats []c17Feature
	core.Register(&core.Check{
		ID: "C17",
		Rule: "a Swagger 2.0 skeleton (host, basePath, scheme, one path with a path parameter and two operations, one definition) plus every combination of up to two (quick) or three (thorough) features out of ~340: every non-body parameter location x type x constraint field, body parameters (inline, $ref, array of refs), form parameters incl. file upload, shared parameters/responses incl. a shared parameter named like a definition, " +
			"response schemas and headers with constraints, definitions with every constraint keyword, allOf, nesting, additionalProperties in its four forms, discriminator, x-nullable, self reference, host/basePath/schemes variants, basic/apiKey/four OAuth2 flows, operation and document security. " +
			"Oracle: ToV3(d).Validate()==nil, NF(ToV3(d)) == NF(d), NF(FromV3(ToV3(d))) == NF(d), every $ref of the way-back document points at a Swagger 2.0 location and no parameter list of it carries a parameter twice. Under both map orders. non-trivial = a feature is applied",
		Assumptions: []string{
			"normal form mc/ref/apinf.go: paths, methods, operation ids, parameters by in:name with requiredness and schema constraints, body, form fields, responses with description/headers/schema, definitions, servers, security schemes; shared objects dereferenced, schema references by name",
			"fields without a counterpart (collectionFormat vs style/explode, consumes/produces lists, allowEmptyValue) are outside the normal form; type:file equals string/binary; x-nullable equals nullable",
		},
		Bounds:        func(tier string) map[string]any { return map[string]any{"features": len(c17Features()), "features_per_document": map[string]int{"quick": 2, "thorough": 3}[tier]} },
		MinOutcomes:   1,
		ShrinkVectors: true,
		DevBound:      func(string) int { return 1 },
		Body: func(r *core.Run, x *explore.X) {
			if feats == nil {
				feats = c17Features()
			}
			i := x.Choose(len(feats) + 1) // 0 = the bare skeleton
			// second (and, thorough, third) feature with a smaller index; an index equal to the previous one stands for "none" as well,
			// so that a combination can shrink onto any of its members
			j, k := 0, 0
			if j = x.Choose(len(feats) + 1); j > i {
				return
			}
			if j == i {
				j = 0
			}
			if r.Tier == "thorough" && j > 0 {
				if k = x.Choose(len(feats) + 1); k > j {
					return
				}
				if k == j {
					k = 0
				}
			}
			order := x.Deviate(2)
			if !r.Own(x) {
				return
			}
			chosen := []int{}
			for _, f := range []int{k, j, i} {
				if f > 0 {
					chosen = append(chosen, f-1)
				}
			}
			used := map[string]bool{}
			for _, f := range chosen {
				for _, sl := range c17Slots(feats[f].name) {
					if used[sl] {
						return // two of the features write the same part of the document
					}
					used[sl] = true
				}
			}
			d := c17Base()
			var names []string
			for _, f := range chosen {
				feats[f].apply(d)
				names = append(names, feats[f].name)
			}
			sig := "features=[" + strings.Join(names, " + ") + "]"
			docJSON, _ := json.Marshal(d)
			r.Case(fmt.Sprintf("%s|%d", sig, order), i > 0)
			if r.WantSample(x) {
				r.Sample(x, map[string]any{"case": sig, "document": string(docJSON)})
			}
			detail := map[string]any{"case": sig, "swagger2": string(docJSON)}
			var doc2 openapi2.T
			if err := json.Unmarshal(docJSON, &doc2); err != nil {
				r.Outcome("v2-does-not-parse(skipped)")
				return
			}
			var doc3 *openapi3.T
			var err error
			r.Exec(order)
			if !r.Guard(x, "ToV3", detail, func() { doc3, err = openapi2conv.ToV3(&doc2) }) {
				return
			}
			r.Validated(1)
			fail := func(clause string, kv ...any) {
				dd := cloneDetailAny(detail)
				for k := 0; k+1 < len(kv); k += 2 {
					dd[kv[k].(string)] = kv[k+1]
				}
				r.Fail(x, clause, sig, dd)
			}
			if err != nil {
				fail("ToV3-fails", "error", err.Error())
				r.Outcome("ToV3 error")
				return
			}
			j3, _ := json.Marshal(doc3)
			if verr := doc3.Validate(context.Background()); verr != nil {
				fail("converted-document-does-not-validate", "error", verr.Error(), "openapi3", string(j3))
			}
			var raw3 map[string]any
			json.Unmarshal(j3, &raw3)
			var raw2 map[string]any
			json.Unmarshal(docJSON, &raw2)
			want := ref.NormalForm(raw2)
			got3 := ref.NormalFormWith(raw3, ref.SharedFormParameters(raw2))
			if diffs := DiffJSON(generic(got3), generic(want), 5); len(diffs) > 0 {
				fail("v3-describes-a-different-api:"+c03DiffClass(diffs[0]), "diff(v3 vs v2 normal form)", diffs, "openapi3", string(j3))
				r.Outcome("v3 differs")
				return
			}
			var back *openapi2.T
			r.Exec(order)
			if !r.Guard(x, "FromV3", detail, func() { back, err = openapi2conv.FromV3(doc3) }) {
				return
			}
			if err != nil {
				fail("FromV3-fails", "error", err.Error())
				return
			}
			jb, _ := json.Marshal(back)
			var rawb map[string]any
			json.Unmarshal(jb, &rawb)
			var bad []string
			c17RefsOK(rawb, &bad)
			if len(bad) > 0 {
				fail("way-back-reference-not-a-v2-location", "references", bad, "swagger2_back", string(jb))
			}
			// a legal Swagger 2.0 document: (in, name) is unique in every parameter list, at most one body parameter
			if dups := c17DuplicateParams(rawb); len(dups) > 0 {
				fail("way-back-is-not-a-legal-swagger2-document:duplicate-parameter", "duplicates", dups, "swagger2_back", string(jb))
			}
			gotb := ref.NormalForm(rawb)
			if diffs := DiffJSON(generic(gotb), generic(want), 5); len(diffs) > 0 {
				fail("way-back-describes-a-different-api:"+c03DiffClass(diffs[0]), "diff(back vs original normal form)", diffs, "swagger2_back", string(jb))
				r.Outcome("way back differs")
				return
			}
			r.Outcome("preserved")
		},
	})
}
