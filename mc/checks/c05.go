package checks

import (
	"context"
	"errors"
	"fmt"
	"net/http"

	"github.com/getkin/kin-openapi/openapi3"
	"github.com/getkin/kin-openapi/openapi3filter"

	"verifmc/core"
	"verifmc/explore"
	"verifmc/ref"
)

type c05Shape struct {
	name    string
	class   string // prim, array, object, deep
	schemas []map[string]any
	values  []any
	garbage string // text that is not a serialisation of the type ("" = none)
}

func intS(extra ...any) map[string]any {
	s := map[string]any{"type": "integer"}
	for i := 0; i+1 < len(extra); i += 2 {
		s[extra[i].(string)] = extra[i+1]
	}
	return s
}

var c05Shapes = []c05Shape{
	{"integer", "prim", []map[string]any{intS(), intS("minimum", 1.0)}, []any{0.0, 1.0, -1.0, 10.0}, "zz"},
	{"number", "prim", []map[string]any{m("type", "number"), m("type", "number", "maximum", 1.0)}, []any{1.5, -0.5, 2.0}, "zz"},
	{"boolean", "prim", []map[string]any{m("type", "boolean"), m("type", "boolean", "enum", l(true))}, []any{true, false}, "zz"},
	{"string", "prim", []map[string]any{m("type", "string"), m("type", "string", "minLength", 2.0)}, []any{"a", "ab", "1", "true", "a b", "a.b", "ä", "me", "apple", "prism"}, ""},
	{"array-integer", "array", []map[string]any{m("type", "array", "items", intS()), m("type", "array", "items", intS("minimum", 1.0), "minItems", 2.0)}, []any{l(1.0), l(1.0, 2.0), l(3.0, 4.0, 5.0), l(0.0, 1.0), l()}, "zz"},
	{"array-string", "array", []map[string]any{m("type", "array", "items", m("type", "string")), m("type", "array", "items", m("type", "string", "minLength", 2.0), "maxItems", 2.0)}, []any{l("a"), l("ab", "cd"), l("a", "b", "c"), l("me", "apple")}, ""},
	{"array-boolean", "array", []map[string]any{m("type", "array", "items", m("type", "boolean"))}, []any{l(true), l(true, false)}, "zz"},
	{"array-number", "array", []map[string]any{m("type", "array", "items", m("type", "number"))}, []any{l(1.5), l(1.5, 2.0)}, "zz"},
	{"object-flat", "object", []map[string]any{
		m("type", "object", "properties", m("a", intS(), "b", m("type", "string"))),
		m("type", "object", "properties", m("a", intS("minimum", 1.0), "b", m("type", "string")), "required", l("a"))},
		[]any{m("a", 1.0), m("b", "x"), m("a", 1.0, "b", "x"), m("a", 0.0, "b", "pm")}, ""},
	{"object-nested", "deep", []map[string]any{
		m("type", "object", "properties", m("a", m("type", "object", "properties", m("b", intS())), "l", m("type", "array", "items", intS()), "s", m("type", "string"))),
		m("type", "object", "properties", m("a", m("type", "object", "properties", m("b", intS("minimum", 1.0)), "required", l("b")), "l", m("type", "array", "items", intS(), "minItems", 2.0), "s", m("type", "string")))},
		[]any{m("a", m("b", 1.0)), m("l", l(1.0, 2.0)), m("a", m("b", 0.0), "l", l(3.0)), m("s", "x"), m("a", m("b", 2.0), "s", "y", "l", l(1.0, 2.0, 3.0))}, ""},
	{"allOf-integer", "prim", []map[string]any{m("allOf", l(intS())), m("allOf", l(intS(), m("minimum", 1.0)))}, []any{0.0, 1.0, 10.0}, ""},
	{"oneOf-integer-boolean", "prim", []map[string]any{m("oneOf", l(intS(), m("type", "boolean")))}, []any{1.0, true, 0.0, 10.0, false}, ""},
	{"anyOf-integer-string", "prim", []map[string]any{m("anyOf", l(intS(), m("type", "string")))}, []any{1.0, "ab"}, ""},
}

// extra values of the thorough tier, appended to the shapes of the same name
var c05ThoroughValues = map[string][]any{
	"integer":       {2147483648.0, -2147483649.0, 100.0},
	"number":        {0.0, 1e3, -1.25},
	"string":        {"0", "false", "null", "x-y", "p", "pp1", "=", "a=b", "[", "a[b]", "Z", "a&b", "a+b", "a%b", "a;b", "a|b", "a,b", "a/b?c#d", "%41", "+"},
	"array-integer": {l(1.0, 1.0), l(10.0, 20.0, 30.0, 40.0)},
	"array-string":  {l("p", "pm"), l("a", "a"), l("1", "true"), l("a&b", "c=d"), l("a+b", "a b"), l("a|b"), l("a%2Cb", "[x]")},
	"object-flat":   {m("b", "1"), m("a", 10.0, "b", "a"), m("b", "x&y=z"), m("a", 1.0, "b", "[b]"), m("b", "a+b c")},
	"object-nested": {m("a", m("b", 1.0), "s", "p"), m("l", l(0.0))},
}

func c05Applicable(c ref.Cell, class string) bool {
	switch c.Style {
	case "spaceDelimited", "pipeDelimited":
		return class == "array"
	case "deepObject":
		return class == "object" || class == "deep"
	}
	return class != "deep"
}

type c05Case struct {
	declared  int // 0 style and explode explicit, 1 explode left to its default (when the cell's explode is the style's default), 2 both left to their defaults
	cell      ref.Cell
	shape     c05Shape
	si, vi    int
	presence  string // present, absent, empty, garbage
	required  bool
	allowEmpt bool
	reverse   bool
	neighbour int // 0 none; 1 another parameter whose name starts with this one's name travels in the same place; 2 one whose name ends with it
}

func (c c05Case) sig() string {
	v := "-"
	if c.presence == "present" {
		v = CanonJSON(c.shape.values[c.vi])
	}
	return fmt.Sprintf("%s declared=%d %s schema#%d value=%s presence=%s required=%v allowEmptyValue=%v reversed=%v neighbour=%d", c.cell, c.declared, c.shape.name, c.si, v, c.presence, c.required, c.allowEmpt, c.reverse, c.neighbour)
}

// c05Build makes the parameter and the request input for a case.
func c05Build(c c05Case) (*openapi3.Parameter, *openapi3filter.RequestValidationInput, map[string]any, error) {
	name := "p"
	if c.cell.In == "header" {
		name = "X-P"
	}
	rawSchema := c.shape.schemas[c.si]
	schema, err := loadSchema(rawSchema)
	if err != nil {
		return nil, nil, nil, err
	}
	explode := c.cell.Explode
	param := &openapi3.Parameter{Name: name, In: c.cell.In, Style: c.cell.Style, Explode: &explode, Required: c.required, AllowEmptyValue: c.allowEmpt,
		Schema: &openapi3.SchemaRef{Value: schema}}
	if c.declared >= 1 {
		param.Explode = nil
	}
	if c.declared == 2 {
		param.Style = ""
	}
	req, _ := http.NewRequest("GET", "http://h.example/r", nil)
	in := &openapi3filter.RequestValidationInput{Request: req, PathParams: map[string]string{"other": "1"}, Options: &openapi3filter.Options{}}
	// a neighbouring parameter of a similar name, carrying text that is not valid for this parameter
	if c.neighbour != 0 {
		nb := map[int]string{1: name + "q", 2: "q" + name}[c.neighbour]
		var nbValue any = "zz"
		if c.cell.Style == "deepObject" {
			nbValue = map[string]any{"a": "zz", "zz": "1"}
		}
		ns := ref.Serialize(c.cell, nb, nbValue, false)
		if !ns.OK {
			return nil, nil, nil, errors.New("not expressible")
		}
		switch c.cell.In {
		case "path":
			in.PathParams[nb] = ns.PathValue
		case "query":
			req.URL.RawQuery = ns.RawQuery()
		case "header":
			req.Header.Set(nb, ns.Header)
		case "cookie":
			req.AddCookie(&http.Cookie{Name: nb, Value: ns.Cookie})
		}
	}
	var ser ref.Serialized
	switch c.presence {
	case "present":
		ser = ref.Serialize(c.cell, name, c.shape.values[c.vi], c.reverse)
	case "empty":
		ser = ref.Serialize(c.cell, name, "", false)
	case "garbage":
		ser = ref.Serialize(c.cell, name, c.shape.garbage, false)
	case "absent":
		return param, in, rawSchema, nil
	}
	if !ser.OK {
		return nil, nil, nil, errors.New("not expressible")
	}
	switch c.cell.In {
	case "path":
		in.PathParams[name] = ser.PathValue
	case "query":
		if req.URL.RawQuery != "" {
			req.URL.RawQuery += "&"
		}
		req.URL.RawQuery += ser.RawQuery()
	case "header":
		req.Header.Set(name, ser.Header)
	case "cookie":
		req.AddCookie(&http.Cookie{Name: name, Value: ser.Cookie})
	}
	return param, in, rawSchema, nil
}

func init() {
	presences := []string{"present", "absent", "empty", "garbage"}
	core.Register(&core.Check{
		ID: "C05",
		Rule: "the complete legal table in x style x explode (17 cells) x 13 schema shapes (integer, number, boolean, string, arrays of each, flat object, nested object/array for deepObject, allOf/oneOf/anyOf of primitives; each with and without a constraint so that accept and reject occur) x every value of the shape " +
			"x presence {present, absent, empty, garbage} x required x allowEmptyValue; deviations: object properties serialised in reverse order, a neighbouring parameter whose name starts or ends with this one's name travelling in the same place with text invalid for this one, descending map iteration. The value is serialised by an independent OAS/RFC6570 serialiser; the decoded value (hook) must equal it, ValidateParameter must accept iff the reference evaluator does, " +
			"absent required => ErrInvalidRequired, absent optional => nil, garbage => an error. non-trivial = presence is not 'absent' and the serialisation is invertible",
		Assumptions: []string{
			"reference serialiser mc/ref/style.go implements the OAS 3.0.3 style table; (cell,value) pairs the table cannot invert (a string containing the style's delimiter, empty collections, label-style decimals) are skipped and counted",
			"decoded value observed through the verif-tagged hook VerifDecodeStyledParameter",
			"path parameters are handed over the way routers do (unescaped text per template variable)",
			"empty text for string-typed parameters is a legitimate empty string and is not judged",
		},
		Bounds:        func(tier string) map[string]any { return map[string]any{"cells": len(ref.Cells), "shapes": len(c05Shapes), "presence_classes": 4} },
		MinOutcomes:   4,
		ShrinkVectors: true,
		DevBound: func(tier string) int {
			if tier == "thorough" {
				return 2
			}
			return 1
		},
		Body: func(r *core.Run, x *explore.X) {
			var c c05Case
			c.cell = explore.Pick(x, ref.Cells)
			c.shape = explore.Pick(x, c05Shapes)
			if r.Tier == "thorough" {
				if extra := c05ThoroughValues[c.shape.name]; extra != nil {
					c.shape.values = append(append([]any{}, c.shape.values...), extra...)
				}
			}
			c.si = x.Choose(len(c.shape.schemas))
			c.presence = explore.Pick(x, presences)
			if c.presence == "present" {
				c.vi = x.Choose(len(c.shape.values))
			}
			c.required = x.Bool()
			c.allowEmpt = x.Bool()
			// the same cell declared with its defaults left out (OAS: explode defaults to true for form, false otherwise;
			// style defaults to form for query/cookie, simple for path/header)
			defaultExplode := c.cell.Style == "form"
			defaultStyle := map[string]string{"query": "form", "cookie": "form", "path": "simple", "header": "simple"}[c.cell.In]
			if c.cell.Explode == defaultExplode {
				if c.cell.Style == defaultStyle {
					c.declared = x.Choose(3)
				} else {
					c.declared = x.Choose(2)
				}
			}
			c.reverse = x.Deviate(2) == 1
			c.neighbour = x.Deviate(3)
			order := x.Deviate(2)
			if !r.Own(x) {
				return
			}
			if !c05Applicable(c.cell, c.shape.class) || (c.presence == "garbage" && c.shape.garbage == "") || (c.allowEmpt && c.cell.In != "query") {
				return
			}
			if c.cell.In == "path" && (c.presence == "empty" || !c.required) {
				return // path parameters are always required and never empty
			}
			if c.cell.In == "cookie" && c.cell.Explode && (c.shape.class == "array" || c.shape.class == "object") {
				r.Outcome("not-expressible")
				return // arrays and objects cannot be exploded into one cookie (Appendix D): not in the table
			}
			param, in, rawSchema, err := c05Build(c)
			if err != nil {
				r.Outcome("not-expressible")
				return
			}
			sig := c.sig()
			var value any
			ambiguous := false
			if c.presence == "present" {
				value = c.shape.values[c.vi]
				ambiguous = ref.Ambiguous(c.cell, value)
				if r.Tier == "thorough" {
					ambiguous = ref.AmbiguousEscaped(c.cell, value) // reserved characters travel percent-encoded in the query
				}
				// under a composition the text may parse as an earlier alternative
				if s, isStr := value.(string); isStr && c.shape.name == "anyOf-integer-string" {
					if _, e := fmt.Sscanf(s, "%d", new(int)); e == nil {
						ambiguous = true
					}
				}
				if f, isNum := value.(float64); isNum && c.shape.name == "oneOf-integer-boolean" && (f == 0 || f == 1) {
					ambiguous = true // "0"/"1" are also lenient spellings of booleans
				}
			}
			r.Case(fmt.Sprintf("%s|%d", sig, order), c.presence != "absent" && !ambiguous)
			if r.WantSample(x) {
				r.Sample(x, map[string]any{"case": sig, "schema": rawSchema, "query": in.Request.URL.RawQuery, "path_params": in.PathParams, "header": in.Request.Header})
			}
			detail := map[string]any{"case": sig, "schema": CanonJSON(rawSchema), "query": in.Request.URL.RawQuery, "path_value": in.PathParams[param.Name], "headers": fmt.Sprint(in.Request.Header)}
			if ambiguous {
				r.Abstain(1)
				r.Outcome("ambiguous(skipped)")
				// still must not panic
				r.Exec(order)
				r.Guard(x, "ValidateParameter", detail, func() { openapi3filter.ValidateParameter(context.Background(), in, param) })
				return
			}
			var decoded any
			var found bool
			var derr, verr error
			r.Exec(order)
			if !r.Guard(x, "decode", detail, func() { decoded, found, derr = openapi3filter.VerifDecodeStyledParameter(param, in) }) {
				r.Outcome("panic")
				return
			}
			r.Exec(order)
			if !r.Guard(x, "ValidateParameter", detail, func() { verr = openapi3filter.ValidateParameter(context.Background(), in, param) }) {
				r.Outcome("panic")
				return
			}
			r.Validated(1)
			fail := func(clause string, kv ...any) {
				d := cloneDetailAny(detail)
				for i := 0; i+1 < len(kv); i += 2 {
					d[kv[i].(string)] = kv[i+1]
				}
				if verr != nil {
					d["validate_error"] = verr.Error()
				}
				r.Fail(x, clause, sig, d)
			}
			switch c.presence {
			case "present":
				if derr != nil {
					fail("decode-error-on-valid-serialisation", "decode_error", derr.Error())
					r.Outcome("decode-error")
					return
				}
				if !found {
					fail("present-parameter-not-found")
				}
				if !ref.Equal(normJSON(decoded), value) {
					fail("decoded-value-differs", "decoded", CanonJSON(normJSON(decoded)), "serialised_value", CanonJSON(value))
					r.Outcome("decoded-differs")
					return
				}
				want := ref.Valid(rawSchema, value, ref.Plain)
				if want == ref.Abstain {
					return
				}
				r.Outcome(fmt.Sprintf("present ref=%v impl_ok=%v", want, verr == nil))
				if (verr == nil) != (want == ref.Accept) {
					if want == ref.Accept {
						fail("rejects-valid-parameter")
					} else {
						fail("accepts-invalid-parameter")
					}
				}
			case "absent":
				r.Outcome(fmt.Sprintf("absent required=%v ok=%v", c.required, verr == nil))
				if c.required {
					if verr == nil || !errors.Is(verr, openapi3filter.ErrInvalidRequired) {
						var re *openapi3filter.RequestError
						if !(errors.As(verr, &re) && re.Err == openapi3filter.ErrInvalidRequired) {
							fail("absent-required-not-reported-as-missing")
						}
					}
				} else if verr != nil {
					fail("absent-optional-rejected")
				}
			case "empty":
				if c.shape.name != "integer" && c.shape.name != "number" && c.shape.name != "boolean" {
					return // strings: the empty string is a value; collections and compositions: the property does not say
				}
				r.Outcome(fmt.Sprintf("empty allow=%v ok=%v", c.allowEmpt, verr == nil))
				if c.allowEmpt {
					if verr != nil {
						fail("empty-value-rejected-although-allowed")
					}
				} else if verr == nil {
					fail("empty-value-accepted-for-non-string-type")
				}
			case "garbage":
				r.Outcome(fmt.Sprintf("garbage ok=%v", verr == nil))
				if verr == nil {
					fail("accepts-text-that-is-not-a-serialisation-of-the-type")
				}
			}
		},
	})
}
