package checks

import (
	"context"
	"fmt"
	"net/http"
	"net/http/httptest"
	"os"
	"path/filepath"
	"strings"

	"github.com/getkin/kin-openapi/openapi3"
	"github.com/getkin/kin-openapi/openapi3filter"
	"github.com/getkin/kin-openapi/routers"
	"github.com/getkin/kin-openapi/routers/gorillamux"

	"verifmc/core"
	"verifmc/explore"
)

const c14Responses = `"responses":{"200":{"description":"ok","content":{"application/json":{"schema":{"type":"object","properties":{"ok":{"type":"boolean"}},"required":["ok"]}}}},"201":{"description":"created"}}`

// document variants: where the request constraint lives
var c14Specs = map[string]string{
	"operation-parameter": `{"openapi":"3.0.3","info":{"title":"t","version":"1"},"paths":{"/r":{"get":{"parameters":[{"name":"q","in":"query","required":true,"schema":{"type":"integer"}}],` + c14Responses + `}}}}`,
	"path-level-parameter": `{"openapi":"3.0.3","info":{"title":"t","version":"1"},"paths":{"/r":{"parameters":[{"name":"q","in":"query","required":true,"schema":{"type":"integer"}}],"get":{` + c14Responses + `}}}}`,
	"request-body": `{"openapi":"3.0.3","info":{"title":"t","version":"1"},"paths":{"/r":{"get":{"requestBody":{"required":true,"content":{"application/json":{"schema":{"type":"object","properties":{"n":{"type":"integer"}},"required":["n"]}}}},` + c14Responses + `}}}}`,
	"document-security": `{"openapi":"3.0.3","info":{"title":"t","version":"1"},"security":[{"A":[]}],"components":{"securitySchemes":{"A":{"type":"apiKey","name":"X-Auth","in":"header"}}},"paths":{"/r":{"get":{` + c14Responses + `}}}}`,
}

var c14SpecNames = []string{"operation-parameter", "path-level-parameter", "request-body", "document-security"}

const c14Spec = `{"openapi":"3.0.3","info":{"title":"t","version":"1"},"paths":{"/r":{"get":{"parameters":[{"name":"q","in":"query","required":true,"schema":{"type":"integer"}}],` + c14Responses + `}}}}`

// clientWriter is the client side of the connection: it records what reaches the client and mirrors net/http
// (the first status wins, Write implies 200, an invalid status code panics, headers are frozen at the first status).
type clientWriter struct {
	hdr        http.Header
	sent       http.Header
	status     int
	body       []byte
	flushes    int
	calls      []string
	wroteStart bool
}

func (c *clientWriter) Header() http.Header { return c.hdr }
func (c *clientWriter) WriteHeader(s int) {
	c.calls = append(c.calls, fmt.Sprintf("WriteHeader(%d)", s))
	if s < 100 || s > 999 {
		panic(fmt.Sprintf("invalid WriteHeader code %v", s))
	}
	if c.wroteStart {
		return
	}
	c.wroteStart, c.status, c.sent = true, s, c.hdr.Clone()
}
func (c *clientWriter) Write(b []byte) (int, error) {
	c.calls = append(c.calls, fmt.Sprintf("Write(%q)", b))
	if !c.wroteStart {
		c.wroteStart, c.status, c.sent = true, 200, c.hdr.Clone()
	}
	c.body = append(c.body, b...)
	return len(b), nil
}

type flushingClientWriter struct{ *clientWriter }

// Flush mirrors net/http: flushing before any status was written commits the headers with an implicit 200.
func (f flushingClientWriter) Flush() {
	f.flushes++
	f.calls = append(f.calls, "Flush")
	if !f.wroteStart {
		f.wroteStart, f.status, f.sent = true, 200, f.hdr.Clone()
	}
}

type c14Step int

const (
	stSetCT c14Step = iota
	stWH200
	stWH201
	stWH500
	stW1
	stW2
	stFlush
)

var c14StepNames = []string{"Header().Set(Content-Type: application/json)", "WriteHeader(200)", "WriteHeader(201)", "WriteHeader(500)", `Write({"ok":)`, `Write(true})`, "Flush"}

func c14RunHandler(steps []c14Step, w http.ResponseWriter) {
	// the handler writes from one scratch buffer that it reuses: a Writer must not keep the slice it was handed
	scratch := make([]byte, 16)
	write := func(piece string) {
		n := copy(scratch, piece)
		w.Write(scratch[:n])
		for i := range scratch {
			scratch[i] = '#'
		}
	}
	for _, s := range steps {
		switch s {
		case stSetCT:
			w.Header().Set("Content-Type", "application/json")
		case stWH200:
			w.WriteHeader(200)
		case stWH201:
			w.WriteHeader(201)
		case stWH500:
			w.WriteHeader(500)
		case stW1:
			write(`{"ok":`)
		case stW2:
			write(`true}`)
		case stFlush:
			if f, ok := w.(http.Flusher); ok {
				f.Flush()
			}
		}
	}
}

// what the same middleware instance served immediately before the exchange under test
var c14Priors = []string{"none", "invalid-response-with-body", "valid-response", "invalid-request"}

func init() {
	var router routers.Router
	routersBy := map[string]routers.Router{}
	var specFile string
	setup := func() {
		if router != nil {
			return
		}
		for name, spec := range c14Specs {
			doc, err := openapi3.NewLoader().LoadFromData([]byte(spec))
			if err != nil {
				panic(err)
			}
			if err := doc.Validate(context.Background()); err != nil {
				panic(err)
			}
			rt, err := gorillamux.NewRouter(doc)
			if err != nil {
				panic(err)
			}
			routersBy[name] = rt
		}
		router = routersBy["operation-parameter"]
		dir := filepath.Join(core.VerifDir, ".cache")
		os.MkdirAll(dir, 0o755)
		specFile = filepath.Join(dir, "c14spec.json") // same bytes from every worker
		os.WriteFile(specFile, []byte(c14Spec), 0o644)
	}
	core.Register(&core.Check{
		ID: "C14",
		Rule: "handler behaviours: every sequence of up to 4 (thorough 6) calls from {WriteHeader(200|201|500), Write(first half), Write(second half), Flush}, optionally preceded by Header().Set(Content-Type) x request class {no route, routable but invalid, valid} x strict x custom/default error callback x custom/default log callback x client writer with/without Flusher; " +
			"x what the same middleware instance served just before {nothing, a response that failed validation and carried a body, a valid response, an invalid request}; also the older ValidationHandler (request gate). The client writer is harness code mirroring net/http. The same handler run against a plain recorder defines the intended response; the spec makes response validity a one-line predicate. Abstract states: (handler invoked, error callback calls, client status, client body). non-trivial = the request is routable",
		Assumptions: []string{
			"client writer mirrors net/http: first status wins, Write implies 200, invalid status codes panic",
			"the handler writes its pieces from one scratch buffer that it overwrites after every Write (io.Writer: implementations must not retain the slice)",
			"intended response = the handler sequence run against the harness writer directly; in strict mode equality is on (status, concatenated body)",
			"a handler that writes nothing may reach the client as nothing (implicit 200) or be replaced by the 500 error in strict mode; it must not panic",
		},
		Bounds:        func(tier string) map[string]any { return map[string]any{"handler_calls": map[string]int{"quick": 4, "thorough": 6}[tier], "request_classes": 3} },
		MinOutcomes:   4,
		ShrinkVectors: true,
		Body: func(r *core.Run, x *explore.X) {
			setup()
			maxLen := 4
			if r.Tier == "thorough" {
				maxLen = 6
			}
			reqClass := explore.Pick(x, []string{"valid", "invalid", "no-route"})
			subject := explore.Pick(x, []string{"Validator.Middleware", "ValidationHandler"})
			variant := "operation-parameter"
			if subject == "Validator.Middleware" {
				variant = explore.Pick(x, c14SpecNames)
			}
			strict := false
			customErr, customLog, flusher := false, false, false
			if subject == "Validator.Middleware" {
				strict = x.Bool()
				customErr, customLog = x.Bool(), x.Bool()
			}
			flusher = x.Bool()
			// history: what the same middleware instance served just before this exchange
			prior := "none"
			if subject == "Validator.Middleware" {
				prior = explore.Pick(x, c14Priors)
			}
			var steps []c14Step
			if x.Bool() {
				steps = append(steps, stSetCT)
			}
			n := x.Choose(maxLen + 1)
			for i := 0; i < n; i++ {
				steps = append(steps, c14Step(1+x.Choose(6)))
			}
			if !r.Own(x) {
				return
			}
			var names []string
			for _, s := range steps {
				names = append(names, c14StepNames[s])
			}
			sig := fmt.Sprintf("%s document=%s request=%s strict=%v customErr=%v customLog=%v clientFlusher=%v handler=[%s]", subject, variant, reqClass, strict, customErr, customLog, flusher, strings.Join(names, "; "))
			if prior != "none" {
				sig += " after=" + prior
			}
			target := map[string]string{"valid": "http://h.example/r?q=1", "invalid": "http://h.example/r?q=zz", "no-route": "http://h.example/nope"}[reqClass]
			var reqBody string
			reqHeader := http.Header{}
			switch variant {
			case "request-body":
				reqHeader.Set("Content-Type", "application/json")
				reqBody = map[string]string{"valid": `{"n":1}`, "invalid": `{"n":"x"}`, "no-route": `{"n":1}`}[reqClass]
			case "document-security":
				if reqClass != "invalid" {
					reqHeader.Set("X-Auth", "ok")
				}
			}
			router := routersBy[variant]
			// intended response: the handler against the client writer directly
			// (in strict mode "the status and body the handler wrote" are its WriteHeader/Write calls: a Flush writes neither, and
			// nothing may be committed to the client before the response has been validated, so Flush counts as a no-op there)
			intended := &clientWriter{hdr: http.Header{}}
			if flusher && !(strict && subject == "Validator.Middleware") {
				c14RunHandler(steps, flushingClientWriter{intended})
			} else {
				c14RunHandler(steps, intended)
			}
			predicateValid := true
			switch intended.status {
			case 200:
				predicateValid = intended.sent.Get("Content-Type") == "application/json" && string(intended.body) == `{"ok":true}`
			}
			// the property speaks of responses that fail *response validation*: the yardstick is ValidateResponse applied to the intended response
			intendedValid := true
			if intended.status != 0 {
				rt, pp, _ := router.FindRoute(httptest.NewRequest("GET", "http://h.example/r?q=1", nil))
				rin := &openapi3filter.ResponseValidationInput{RequestValidationInput: &openapi3filter.RequestValidationInput{Request: httptest.NewRequest("GET", "http://h.example/r?q=1", nil), PathParams: pp, Route: rt},
					Status: intended.status, Header: intended.sent}
				rin.SetBodyBytes(intended.body)
				intendedValid = openapi3filter.ValidateResponse(context.Background(), rin) == nil
			}
			if intendedValid != predicateValid {
				r.Count("validator_and_one_line_predicate_disagree(not_asserted)", 1)
			}
			// the run under test
			client := &clientWriter{hdr: http.Header{}}
			var w http.ResponseWriter = client
			if flusher {
				w = flushingClientWriter{client}
			}
			invoked := 0
			var errCalls []string
			logCalls := 0
			inPrior := false
			h := http.HandlerFunc(func(hw http.ResponseWriter, _ *http.Request) {
				if inPrior {
					switch prior {
					case "invalid-response-with-body":
						hw.Header().Set("Content-Type", "text/plain")
						hw.WriteHeader(200)
						hw.Write([]byte(`{"ok":true,"PRIOR":"SECRET"}`))
					case "valid-response":
						hw.Header().Set("Content-Type", "application/json")
						hw.Write([]byte(`{"ok":true}`))
					}
					return
				}
				invoked++
				c14RunHandler(steps, hw)
			})
			var served http.Handler
			if subject == "Validator.Middleware" {
				vopts := []openapi3filter.ValidatorOption{openapi3filter.Strict(strict), openapi3filter.ValidationOptions(openapi3filter.Options{
					AuthenticationFunc: func(_ context.Context, ai *openapi3filter.AuthenticationInput) error {
						if ai.RequestValidationInput.Request.Header.Get("X-Auth") != "ok" {
							return fmt.Errorf("not authenticated")
						}
						return nil
					}})}
				if customErr {
					vopts = append(vopts, openapi3filter.OnErr(func(_ context.Context, ew http.ResponseWriter, status int, code openapi3filter.ErrCode, _ error) {
						errCalls = append(errCalls, fmt.Sprint(status))
						ew.WriteHeader(status)
						ew.Write([]byte("custom error"))
					}))
				}
				if customLog {
					vopts = append(vopts, openapi3filter.OnLog(func(context.Context, string, error) { logCalls++ }))
				}
				served = openapi3filter.NewValidator(router, vopts...).Middleware(h)
			} else {
				vh := &openapi3filter.ValidationHandler{Handler: h, File: specFile}
				if err := vh.Load(); err != nil {
					panic(err)
				}
				served = vh
			}
			req := httptest.NewRequest("GET", target, nil)
			if reqBody != "" {
				req = httptest.NewRequest("GET", target, strings.NewReader(reqBody))
			}
			for k, v := range reqHeader {
				req.Header[k] = v
			}
			r.Case(sig, reqClass != "no-route")
			if r.WantSample(x) {
				r.Sample(x, map[string]any{"case": sig, "intended_status": intended.status, "intended_body": string(intended.body)})
			}
			detail := map[string]any{"case": sig, "intended_status": intended.status, "intended_body": string(intended.body), "intended_valid": intendedValid}
			if prior != "none" {
				// the earlier exchange, through the same instance, to another client
				ptarget := "http://h.example/r?q=1"
				if prior == "invalid-request" {
					ptarget = "http://h.example/r?q=zz"
				}
				preq := httptest.NewRequest("GET", ptarget, nil)
				if variant == "request-body" {
					preq = httptest.NewRequest("GET", ptarget, strings.NewReader(`{"n":1}`))
					preq.Header.Set("Content-Type", "application/json")
				}
				if variant == "document-security" {
					preq.Header.Set("X-Auth", "ok")
				}
				inPrior = true
				if !r.Guard(x, "ServeHTTP(earlier exchange)", detail, func() { served.ServeHTTP(&clientWriter{hdr: http.Header{}}, preq) }) {
					r.Outcome("panic")
					return
				}
				inPrior = false
				errCalls, logCalls = nil, 0
			}
			r.Exec(0)
			if !r.Guard(x, "ServeHTTP", detail, func() { served.ServeHTTP(w, req) }) {
				r.Outcome("panic")
				return
			}
			r.Validated(1)
			fail := func(clause string) {
				d := cloneDetailAny(detail)
				d["client_status"], d["client_body"], d["client_calls"] = client.status, string(client.body), client.calls
				d["handler_invocations"], d["error_callback_calls"] = invoked, errCalls
				r.Fail(x, clause, sig, d)
			}
			if strings.Contains(string(client.body), "PRIOR") {
				fail("bytes-of-an-earlier-exchange-reach-this-client")
				return
			}
			shouldInvoke := reqClass == "valid"
			if (invoked == 1) != shouldInvoke || invoked > 1 {
				fail("handler-invoked-iff-route-found-and-request-valid")
				return
			}
			if !shouldInvoke {
				want := 400
				if reqClass == "no-route" {
					want = 404
				}
				if subject == "ValidationHandler" {
					// the default error encoder: 404 for routing errors, 4xx/422 for validation errors
					if client.status < 400 {
						fail("gate-answers-with-an-error-status") // the status itself is the pluggable error encoder's business
					}
					r.Outcome(fmt.Sprintf("gate answered %d", client.status))
					return
				}
				if customErr && (len(errCalls) != 1 || errCalls[0] != fmt.Sprint(want)) {
					fail("exactly-one-error-callback-call-with-the-right-status")
				}
				if client.status != want {
					fail("not-found-or-bad-request-status-reaches-the-client")
				}
				r.Outcome(fmt.Sprintf("answered %d itself", client.status))
				return
			}
			if subject == "ValidationHandler" || !strict {
				if client.status != intended.status || string(client.body) != string(intended.body) {
					fail("non-strict:handler-response-passes-through-unchanged")
				}
				r.Outcome(fmt.Sprintf("passed through %d", client.status))
				return
			}
			// strict
			switch {
			case intended.status == 0:
				ok := (client.status == 0 && len(client.body) == 0) || client.status == 500 || (client.status == 200 && len(client.body) == 0)
				if !ok {
					fail("strict:silent-handler")
				}
				r.Outcome("strict silent handler")
			case intendedValid:
				if client.status != intended.status || string(client.body) != string(intended.body) {
					fail("strict:valid-response-reaches-the-client-exactly")
				}
				r.Outcome(fmt.Sprintf("strict valid %d", client.status))
			default:
				leaked := client.status != 500 || strings.Contains(string(client.body), `{"ok"`) || strings.Contains(string(client.body), `true}`)
				if leaked {
					fail("strict:invalid-response-is-replaced-and-nothing-of-it-reaches-the-client")
				}
				if customErr && (len(errCalls) != 1 || errCalls[0] != "500") {
					fail("strict:exactly-one-error-callback-call-with-500")
				}
				r.Outcome("strict replaced by 500")
			}
		},
	})
}
