package checks

import (
	"bytes"
	"context"
	"encoding/json"
	"fmt"
	"io"
	"net/http"
	"net/http/httptest"
	"net/url"
	"sort"
	"strings"

	"github.com/getkin/kin-openapi/openapi3"
	"github.com/getkin/kin-openapi/openapi3filter"
	"github.com/getkin/kin-openapi/routers"

	"verifmc/core"
	"verifmc/explore"
	"verifmc/ref"
)

// ---- reference "apply defaults" ----

// applyDefaults returns value with the defaults of schema added where the value lacks them. Only the
// oneOf/anyOf branch under which the (defaulted) value validates contributes.
func applyDefaults(schema map[string]any, value any) any {
	for _, mem := range subSchemas(schema, "allOf") {
		value = applyDefaults(mem, value)
	}
	for _, key := range []string{"oneOf", "anyOf"} {
		for _, br := range subSchemas(schema, key) {
			cand := applyDefaults(br, cloneJSON(value))
			if ref.ValidStrict(br, cand, ref.AsRequest) {
				value = cand
				break
			}
		}
	}
	switch v := value.(type) {
	case map[string]any:
		props, _ := schema["properties"].(map[string]any)
		for _, name := range sortedKeys(props) {
			ps, _ := props[name].(map[string]any)
			if cur, has := v[name]; !has || cur == nil {
				if d, ok := ps["default"]; ok && d != nil {
					v[name] = cloneJSON(d)
				}
				continue
			}
			v[name] = applyDefaults(ps, v[name])
		}
		return v
	case []any:
		if it, ok := schema["items"].(map[string]any); ok {
			for i := range v {
				v[i] = applyDefaults(it, v[i])
			}
		}
		return v
	}
	return value
}

func subSchemas(s map[string]any, key string) []map[string]any {
	lst, _ := s[key].([]any)
	var out []map[string]any
	for _, e := range lst {
		if mm, ok := e.(map[string]any); ok {
			out = append(out, mm)
		}
	}
	return out
}

// ---- alphabet ----

type c13Body struct {
	name   string
	schema map[string]any
	values []any
	// optional: the schema as written in the document when it differs from the inline reading the model uses
	// (alternatives given by reference and selected by a discriminator mapping), with the component schemas it needs
	docSchema  map[string]any
	components map[string]any
}

// three alternatives told apart by a discriminator property; in the document they are component schemas selected by a mapping
var c13Pets = map[string]any{
	"Cat":  m("type", "object", "properties", m("petType", m("type", "string", "enum", l("cat")), "indoor", m("type", "boolean", "default", true)), "required", l("petType")),
	"Dog":  m("type", "object", "properties", m("petType", m("type", "string", "enum", l("dog")), "leash", m("type", "string", "default", "short")), "required", l("petType")),
	"Bird": m("type", "object", "properties", m("petType", m("type", "string", "enum", l("bird")), "cage", m("type", "integer", "default", 2.0)), "required", l("petType")),
}

var c13Bodies = []c13Body{
	{name: "none", values: []any{nil}},
	{name: "oneOf-discriminator-mapping",
		schema: m("oneOf", l(c13Pets["Cat"], c13Pets["Dog"], c13Pets["Bird"])),
		values: []any{m("petType", "cat"), m("petType", "dog"), m("petType", "bird"), m("petType", "dog", "leash", "long"), m("petType", "fish")},
		docSchema: m("oneOf", l(m("$ref", "#/components/schemas/Cat"), m("$ref", "#/components/schemas/Dog"), m("$ref", "#/components/schemas/Bird")),
			"discriminator", m("propertyName", "petType", "mapping", m("cat", "#/components/schemas/Cat", "dog", "#/components/schemas/Dog", "bird", "#/components/schemas/Bird"))),
		components: c13Pets},
	{name: "flat", schema: m("type", "object", "properties", m("a", m("type", "integer", "default", 1.0), "b", m("type", "string"))),
		values: []any{m(), m("a", 2.0), m("b", "s"), m("a", "bad")}},
	{name: "nested", schema: m("type", "object", "properties", m("o", m("type", "object", "properties", m("c", m("type", "string", "default", "dc"))),
		"l", m("type", "array", "items", m("type", "object", "properties", m("d", m("type", "integer", "default", 3.0)))))),
		values: []any{m(), m("o", m()), m("o", m("c", "v")), m("l", l(m(), m("d", 1.0))), m("o", m(), "l", l(m()))}},
	{name: "allOf", schema: m("allOf", l(m("type", "object", "properties", m("a", m("type", "integer", "default", 1.0))), m("type", "object", "properties", m("b", m("type", "string", "default", "db"))))),
		values: []any{m(), m("a", 5.0), m("b", "x"), m("a", 5.0, "b", "x")}},
	{name: "oneOf-objects", schema: m("oneOf", l(
		m("type", "object", "properties", m("k", m("type", "string", "enum", l("x")), "dx", m("type", "string", "default", "DX")), "required", l("k")),
		m("type", "object", "properties", m("k", m("type", "string", "enum", l("y")), "dy", m("type", "string", "default", "DY")), "required", l("k")))),
		values: []any{m("k", "x"), m("k", "y"), m("k", "y", "dy", "v"), m("k", "z")}},
	{name: "anyOf-objects", schema: m("anyOf", l(
		m("type", "object", "properties", m("k", m("type", "string", "enum", l("x")), "dx", m("type", "string", "default", "DX")), "required", l("k")),
		m("type", "object", "properties", m("k", m("type", "string", "enum", l("y")), "dy", m("type", "string", "default", "DY")), "required", l("k")))),
		values: []any{m("k", "x"), m("k", "y"), m("k", "z")}},
	{name: "oneOf-arrays", schema: m("oneOf", l(
		m("type", "array", "items", m("type", "object", "properties", m("t", m("type", "string", "enum", l("x")), "color", m("type", "string", "default", "red")), "required", l("t"))),
		m("type", "array", "items", m("type", "object", "properties", m("t", m("type", "string", "enum", l("y")), "size", m("type", "integer", "default", 9.0)), "required", l("t"))))),
		values: []any{l(m("t", "y")), l(m("t", "x"), m("t", "x")), l(m("t", "y"), m("t", "y", "size", 1.0))}},
	{name: "anyOf-arrays", schema: m("anyOf", l(
		m("type", "array", "items", m("type", "object", "properties", m("t", m("type", "string", "enum", l("x")), "color", m("type", "string", "default", "red")), "required", l("t"))),
		m("type", "array", "items", m("type", "object", "properties", m("t", m("type", "string", "enum", l("y")), "size", m("type", "integer", "default", 9.0)), "required", l("t"))))),
		values: []any{l(m("t", "y")), l(m("t", "x"))}},
}

// further body schemas of the thorough tier: three alternatives, compositions inside compositions and below a property,
// objects inside arrays inside an alternative that fails only after the array was visited
var c13BodiesThorough = []c13Body{
	{name: "oneOf-three-objects", schema: m("oneOf", l(
		m("type", "object", "properties", m("k", m("type", "string", "enum", l("x")), "dx", m("type", "string", "default", "DX")), "required", l("k"), "additionalProperties", false),
		m("type", "object", "properties", m("k", m("type", "string", "enum", l("y")), "dy", m("type", "string", "default", "DY")), "required", l("k"), "additionalProperties", false),
		m("type", "object", "properties", m("k", m("type", "string", "enum", l("z")), "dz", m("type", "boolean", "default", false)), "required", l("k"), "additionalProperties", false))),
		values: []any{m("k", "x"), m("k", "y"), m("k", "z"), m("k", "w"), m("k", "y", "dy", "given")}},
	{name: "allOf-with-oneOf-inside", schema: m("allOf", l(
		m("type", "object", "properties", m("a", m("type", "integer", "default", 1.0))),
		m("oneOf", l(
			m("type", "object", "properties", m("k", m("type", "string", "enum", l("x")), "dx", m("type", "string", "default", "DX")), "required", l("k")),
			m("type", "object", "properties", m("k", m("type", "string", "enum", l("y")), "dy", m("type", "string", "default", "DY")), "required", l("k")))))),
		values: []any{m("k", "x"), m("k", "y", "a", 2.0), m("k", "z")}},
	{name: "oneOf-below-a-property", schema: m("type", "object", "properties", m("top", m("type", "string", "default", "T"), "p", m("anyOf", l(
		m("type", "object", "properties", m("k", m("type", "string", "enum", l("x")), "dx", m("type", "string", "default", "DX")), "required", l("k")),
		m("type", "object", "properties", m("k", m("type", "string", "enum", l("y")), "dy", m("type", "string", "default", "DY")), "required", l("k")))))),
		values: []any{m(), m("p", m("k", "x")), m("p", m("k", "y"), "top", "given"), m("p", m("k", "z"))}},
	{name: "oneOf-objects-holding-arrays", schema: m("oneOf", l(
		m("type", "object", "properties", m("lines", m("type", "array", "items", m("type", "object", "properties", m("qty", m("type", "integer", "default", 100.0)))), "type", m("type", "string", "enum", l("bulk"))), "required", l("type")),
		m("type", "object", "properties", m("lines", m("type", "array", "items", m("type", "object", "properties", m("unit", m("type", "string", "default", "pc")))), "type", m("type", "string", "enum", l("single"))), "required", l("type")))),
		values: []any{m("type", "single", "lines", l(m(), m("unit", "kg"))), m("type", "bulk", "lines", l(m())), m("type", "single"), m("type", "other", "lines", l(m()))}},
}

type c13ArrStyle struct {
	name    string
	style   string
	explode bool
}

func (a c13ArrStyle) cellStyle() string {
	if a.style == "" {
		return "form"
	}
	return a.style
}

var c13ArrStyles = []c13ArrStyle{{"form-explode", "form", true}, {"form-default-explode", "", true}, {"form", "form", false}, {"pipeDelimited", "pipeDelimited", false}, {"spaceDelimited", "spaceDelimited", false}}

type c13Case struct {
	qp, qa, hp, cp     bool // declared parameters with defaults
	sameInput          bool // the second validation reuses the first RequestValidationInput value
	big                bool // the integer defaults are 1000000 (seven digits: a float64 prints in exponent notation) instead of one digit
	arr                c13ArrStyle
	qpV, qaV, hpV, cpV int // 0 absent, 1 present valid, 2 present invalid (qp only)
	body               c13Body
	bi                 int
	skip               bool
	auth               int // 0 no security; 1 one requirement, the callback reads the whole body; 2 two alternative requirements: the callback reads the body each time, rejects the first and accepts the second
	serverWay          bool
}

func (c c13Case) sig() string {
	return fmt.Sprintf("params{qp:%v,qa:%v(%s),hp:%v,cp:%v} request{qp:%d,qa:%d,hp:%d,cp:%d} body=%s#%d SkipSettingDefaults=%v auth-reads-body=%v server-side-request=%v big-defaults=%v same-input=%v",
		c.qp, c.qa, c.arr.name, c.hp, c.cp, c.qpV, c.qaV, c.hpV, c.cpV, c.body.name, c.bi, c.skip, c.auth, c.serverWay, c.big, c.sameInput)
}

func (c c13Case) intDefault(small float64) float64 {
	if c.big {
		return 1000000
	}
	return small
}

func (c c13Case) intText(small string) string {
	if c.big {
		return "1000000"
	}
	return small
}

func (c c13Case) document() map[string]any {
	var params []any
	if c.qp {
		params = append(params, m("name", "qp", "in", "query", "schema", m("type", "integer", "default", c.intDefault(5.0))))
	}
	if c.qa {
		p := m("name", "qa", "in", "query", "schema", m("type", "array", "items", m("type", "integer"), "default", l(1.0, 2.0)))
		if c.arr.style != "" {
			p["style"], p["explode"] = c.arr.style, c.arr.explode
		}
		params = append(params, p)
	}
	if c.hp {
		params = append(params, m("name", "X-Hp", "in", "header", "schema", m("type", "string", "default", "hv")))
	}
	if c.cp {
		params = append(params, m("name", "cp", "in", "cookie", "schema", m("type", "integer", "default", c.intDefault(7.0))))
	}
	op := m("responses", m("200", m("description", "ok")))
	if params != nil {
		op["parameters"] = params
	}
	if c.body.schema != nil {
		ds := c.body.schema
		if c.body.docSchema != nil {
			ds = c.body.docSchema
		}
		op["requestBody"] = m("required", true, "content", m("application/json", m("schema", ds)))
	}
	switch c.auth {
	case 1:
		op["security"] = l(m("A", l()))
	case 2:
		op["security"] = l(m("A", l()), m("B", l()))
	}
	comps := m("securitySchemes", m("A", m("type", "http", "scheme", "basic"), "B", m("type", "apiKey", "name", "k", "in", "header")))
	if c.body.components != nil {
		comps["schemas"] = c.body.components
	}
	return m("openapi", "3.0.3", "info", m("title", "t", "version", "1"), "paths", m("/r", m("post", op)), "components", comps)
}

type c13Snapshot struct {
	Query   url.Values
	Raw     string
	Header  http.Header
	Body    []byte
	CL      int64
	ReadErr string
}

func c13Snap(req *http.Request) c13Snapshot {
	s := c13Snapshot{Query: req.URL.Query(), Raw: req.URL.RawQuery, Header: req.Header.Clone(), CL: req.ContentLength}
	if req.Body != nil && req.Body != http.NoBody {
		b, err := io.ReadAll(req.Body)
		s.Body = b
		if err != nil {
			s.ReadErr = err.Error()
		}
		req.Body = io.NopCloser(bytes.NewReader(b)) // the next hop receives what this one could read
	}
	return s
}

func headerCanon(h http.Header) string {
	keys := make([]string, 0, len(h))
	for k := range h {
		keys = append(keys, k)
	}
	sort.Strings(keys)
	var b strings.Builder
	for _, k := range keys {
		fmt.Fprintf(&b, "%s=%q;", k, h[k])
	}
	return b.String()
}

func init() {
	docs := map[string]*openapi3.T{}
	core.Register(&core.Check{
		ID: "C13",
		Rule: "operations: every subset of {query integer with default, query integer array with default in 4 styles, header string with default, cookie integer with default} x 8 body schemas with defaults (none, flat, nested objects and array items, allOf, oneOf/anyOf over objects, oneOf/anyOf over arrays) x every request (each defaulted part present/absent/invalid, every listed body) " +
			"x SkipSettingDefaults x security {none, one requirement whose callback reads the body, two alternative requirements whose callback reads the body each time and rejects the first} x client-style/server-style request; history: validate, next handler reads the body, validate the forwarded request again, read again. States compared: (body bytes, raw query, headers incl. cookies, ContentLength). non-trivial = a default applies or a body is present",
		Assumptions: []string{
			"reference apply-defaults mc/checks/c13.go: absent parameters get their schema default in the parameter's own serialisation, absent body properties get their default at any depth, only the matching oneOf/anyOf branch contributes",
			"query strings are compared as decoded values (re-encoding order is not a change); bodies byte-for-byte unless defaults were added, then as JSON values",
			"on a validation error only readability is asserted: the readable body is the original one",
		},
		Bounds:        func(tier string) map[string]any { return map[string]any{"history_depth": 4, "body_schemas": len(c13Bodies)} },
		MinOutcomes:   3,
		ShrinkVectors: true,
		Body: func(r *core.Run, x *explore.X) {
			var c c13Case
			c.qp, c.qa, c.hp, c.cp = x.Bool(), x.Bool(), x.Bool(), x.Bool()
			if c.qp || c.cp {
				c.big = x.Bool()
			}
			c.arr = c13ArrStyles[0]
			if c.qa {
				c.arr = explore.Pick(x, c13ArrStyles)
			}
			if c.qp {
				c.qpV = x.Choose(3)
			}
			if c.qa {
				c.qaV = x.Choose(2)
			}
			if c.hp {
				c.hpV = x.Choose(2)
			}
			if c.cp {
				c.cpV = x.Choose(2)
			}
			if r.Tier == "thorough" {
				c.body = explore.Pick(x, append(append([]c13Body{}, c13Bodies...), c13BodiesThorough...))
			} else {
				c.body = explore.Pick(x, c13Bodies)
			}
			c.bi = x.Choose(len(c.body.values))
			c.skip = x.Bool()
			c.auth = x.Choose(3)
			c.serverWay = x.Bool()
			c.sameInput = x.Bool()
			if !r.Own(x) {
				return
			}
			docRaw := c.document()
			dk := CanonJSON(docRaw)
			doc := docs[dk]
			if doc == nil {
				var err error
				if doc, err = openapi3.NewLoader().LoadFromData([]byte(dk)); err != nil {
					panic(err)
				}
				if err := doc.Validate(context.Background()); err != nil {
					panic(fmt.Sprint("invalid C13 document: ", err, dk))
				}
				docs[dk] = doc
			}
			pi := doc.Paths.Find("/r")
			route := &routers.Route{Spec: doc, Path: "/r", PathItem: pi, Method: "POST", Operation: pi.Post}
			// the request
			q := url.Values{}
			q.Set("other", "1")
			switch c.qpV {
			case 1:
				q.Set("qp", "8")
			case 2:
				q.Set("qp", "zz")
			}
			if c.qaV == 1 {
				s := ref.Serialize(ref.Cell{In: "query", Style: c.arr.cellStyle(), Explode: c.arr.explode}, "qa", l(4.0, 5.0), false)
				for _, k := range s.QueryKeys {
					q[k] = s.Query[k]
				}
			}
			var bodyBytes []byte
			if v := c.body.values[c.bi]; v != nil {
				bodyBytes, _ = json.Marshal(v)
			}
			target := "http://h.example/r?" + q.Encode()
			var req *http.Request
			if c.serverWay {
				if bodyBytes != nil {
					req = httptest.NewRequest("POST", target, bytes.NewReader(bodyBytes))
				} else {
					req = httptest.NewRequest("POST", target, nil)
				}
			} else {
				if bodyBytes != nil {
					req, _ = http.NewRequest("POST", target, bytes.NewReader(bodyBytes))
				} else {
					req, _ = http.NewRequest("POST", target, nil)
				}
			}
			if bodyBytes != nil {
				req.Header.Set("Content-Type", "application/json")
			}
			req.Header.Set("X-Other", "o")
			if c.hpV == 1 {
				req.Header.Set("X-Hp", "given")
			}
			req.AddCookie(&http.Cookie{Name: "other", Value: "1"})
			if c.cpV == 1 {
				req.AddCookie(&http.Cookie{Name: "cp", Value: "3"})
			}
			origQuery, origRaw, origHeader := req.URL.Query(), req.URL.RawQuery, req.Header.Clone()
			sig := c.sig()
			opts := &openapi3filter.Options{SkipSettingDefaults: c.skip}
			var authSaw [][]byte // what each call of the callback could read
			if c.auth != 0 {
				opts.AuthenticationFunc = func(_ context.Context, ai *openapi3filter.AuthenticationInput) error {
					var saw []byte
					if b := ai.RequestValidationInput.Request.Body; b != nil {
						saw, _ = io.ReadAll(b)
					}
					authSaw = append(authSaw, saw)
					if c.auth == 2 && ai.SecuritySchemeName == "A" {
						return fmt.Errorf("not by A")
					}
					return nil
				}
			}
			in := &openapi3filter.RequestValidationInput{Request: req, Route: route, Options: opts}
			detail := map[string]any{"case": sig, "document": dk, "url": target, "body": string(bodyBytes)}
			// model
			defaultsApply := !c.skip
			expQuery := url.Values{}
			for k, v := range origQuery {
				expQuery[k] = append([]string{}, v...)
			}
			expHeader := origHeader.Clone()
			if defaultsApply {
				if c.qp && c.qpV == 0 {
					expQuery["qp"] = []string{c.intText("5")}
				}
				if c.qa && c.qaV == 0 {
					s := ref.Serialize(ref.Cell{In: "query", Style: c.arr.cellStyle(), Explode: c.arr.explode}, "qa", l(1.0, 2.0), false)
					for _, k := range s.QueryKeys {
						expQuery[k] = s.Query[k]
					}
				}
				if c.hp && c.hpV == 0 {
					expHeader.Set("X-Hp", "hv")
				}
				if c.cp && c.cpV == 0 {
					expHeader.Set("Cookie", expHeader.Get("Cookie")+"; cp="+c.intText("7"))
				}
			}
			var expBody any
			bodyChanged := false
			if bodyBytes != nil {
				json.Unmarshal(bodyBytes, &expBody)
				if defaultsApply && c.body.schema != nil {
					withD := applyDefaults(c.body.schema, cloneJSON(expBody))
					bodyChanged = CanonJSON(withD) != CanonJSON(expBody)
					expBody = withD
				}
			}
			wantValid := c.qpV != 2
			if c.body.schema != nil {
				var v any
				json.Unmarshal(bodyBytes, &v)
				chk := v
				if defaultsApply {
					chk = applyDefaults(c.body.schema, cloneJSON(v))
				}
				wantValid = wantValid && ref.ValidStrict(c.body.schema, chk, ref.AsRequest)
			}
			r.Case(sig, bodyBytes != nil || (defaultsApply && (c.qp || c.qa || c.hp || c.cp)))
			if r.WantSample(x) {
				r.Sample(x, map[string]any{"case": sig, "url": target, "body": string(bodyBytes)})
			}
			fail := func(clause string, kv ...any) {
				d := cloneDetailAny(detail)
				for i := 0; i+1 < len(kv); i += 2 {
					d[kv[i].(string)] = kv[i+1]
				}
				r.Fail(x, clause, sig, d)
			}
			// --- history: validate, read, validate, read ---
			var err1 error
			r.Exec(0)
			if !r.Guard(x, "ValidateRequest#1", detail, func() { err1 = openapi3filter.ValidateRequest(context.Background(), in) }) {
				return
			}
			r.Validated(1)
			if c.auth != 0 && bodyBytes != nil {
				for i, saw := range authSaw {
					if !bytes.Equal(saw, bodyBytes) {
						fail("authentication-callback-cannot-read-the-body", "callback_call", i+1, "callback_read", string(saw))
					}
				}
				if len(authSaw) == 0 {
					fail("authentication-callback-not-called")
				}
			}
			authSaw = nil
			s1 := c13Snap(req)
			r.Outcome(fmt.Sprintf("valid=%v defaults=%v", err1 == nil, defaultsApply))
			if (err1 == nil) != wantValid {
				// the verdict itself is C07/C06's business; here it only selects the clause set
				r.Count("verdict_differs_from_model(not_asserted)", 1)
			}
			if s1.ReadErr != "" {
				fail("body-read-error-after-validation", "read_error", s1.ReadErr)
				return
			}
			if err1 != nil {
				if !bytes.Equal(s1.Body, bodyBytes) {
					fail("body-not-readable-in-full-after-failed-validation", "readable", string(s1.Body), "error", err1.Error())
				}
				return
			}
			if bodyBytes != nil && s1.CL != int64(len(s1.Body)) {
				fail("content-length-does-not-match-body", "content_length", s1.CL, "body_length", len(s1.Body))
			}
			if c.skip {
				if s1.Raw != origRaw || headerCanon(s1.Header) != headerCanon(origHeader) || !bytes.Equal(s1.Body, bodyBytes) {
					fail("request-changed-although-defaults-are-skipped", "raw_query", s1.Raw, "headers", headerCanon(s1.Header), "readable", string(s1.Body))
				}
			} else {
				if fmt.Sprint(sortedValues(s1.Query)) != fmt.Sprint(sortedValues(expQuery)) {
					fail("query-after-defaults-differs-from-model", "query", s1.Raw, "expected_values", fmt.Sprint(sortedValues(expQuery)))
				}
				if headerCanon(stripCL(s1.Header)) != headerCanon(stripCL(expHeader)) {
					fail("headers-after-defaults-differ-from-model", "headers", headerCanon(s1.Header), "expected", headerCanon(expHeader))
				}
				if bodyBytes != nil {
					if !bodyChanged && !bytes.Equal(s1.Body, bodyBytes) {
						var got any
						json.Unmarshal(s1.Body, &got)
						if CanonJSON(got) != CanonJSON(expBody) {
							fail("body-changed-although-no-default-applies", "readable", string(s1.Body))
						}
					}
					if bodyChanged {
						var got any
						if json.Unmarshal(s1.Body, &got) != nil || CanonJSON(got) != CanonJSON(expBody) {
							fail("body-after-defaults-differs-from-model", "readable", string(s1.Body), "expected", CanonJSON(expBody))
						}
					}
				}
			}
			// second validation of the forwarded request
			var err2 error
			r.Exec(0)
			in2 := &openapi3filter.RequestValidationInput{Request: req, Route: route, Options: opts} // the next hop validates the forwarded request
			if c.sameInput {
				in2 = in // the same caller validates once more with the input value it already has
			}
			if !r.Guard(x, "ValidateRequest#2", detail, func() { err2 = openapi3filter.ValidateRequest(context.Background(), in2) }) {
				return
			}
			s2 := c13Snap(req)
			if err2 != nil {
				fail("forwarded-request-does-not-validate-again", "error", err2.Error(), "forwarded_query", s1.Raw, "forwarded_body", string(s1.Body))
				return
			}
			if s2.Raw != s1.Raw || headerCanon(s2.Header) != headerCanon(s1.Header) || !bytes.Equal(s2.Body, s1.Body) {
				fail("second-validation-changes-the-request", "first", s1.Raw+" | "+headerCanon(s1.Header)+" | "+string(s1.Body), "second", s2.Raw+" | "+headerCanon(s2.Header)+" | "+string(s2.Body))
			}
		},
	})
}

func sortedValues(v url.Values) []string {
	var out []string
	for k, vs := range v {
		for _, e := range vs {
			out = append(out, k+"="+e)
		}
	}
	sort.Strings(out)
	return out
}

func stripCL(h http.Header) http.Header {
	c := h.Clone()
	c.Del("Content-Length")
	return c
}
