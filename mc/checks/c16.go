package checks

import (
	"context"
	"encoding/json"
	"fmt"
	"strings"

	"github.com/getkin/kin-openapi/openapi3"

	"verifmc/core"
	"verifmc/explore"
)

// eraseRefs replaces {"$ref","$value"} nodes of an expansion by the expanded value itself.
func eraseRefs(n any) any {
	switch x := n.(type) {
	case map[string]any:
		if _, isRef := x["$ref"]; isRef {
			if v, ok := x["$value"]; ok {
				return eraseRefs(v)
			}
			if _, cut := x["$cut"]; cut {
				return map[string]any{"$cut": true}
			}
			return map[string]any{"$unresolved": true}
		}
		out := make(map[string]any, len(x))
		for k, v := range x {
			out[k] = eraseRefs(v)
		}
		return out
	case []any:
		out := make([]any, len(x))
		for i, v := range x {
			out[i] = eraseRefs(v)
		}
		return out
	}
	return n
}

// refStrings collects the $ref strings of serialised JSON, skipping specification extensions and example values.
func refStrings(n any, out *[]string) {
	switch x := n.(type) {
	case map[string]any:
		if r, ok := x["$ref"].(string); ok {
			*out = append(*out, r)
		}
		for _, k := range sortedKeys(x) {
			if k == "value" || k == "example" || k == "default" || strings.HasPrefix(k, "x-") {
				continue // data, not document structure: example values, defaults and specification extensions
			}
			refStrings(x[k], out)
		}
	case []any:
		for _, e := range x {
			refStrings(e, out)
		}
	}
}

// diffClass abstracts a diff to its last path token and the kind of difference.
func diffClass(d string) string {
	path, note := d, ""
	if i := strings.Index(d, " ("); i > 0 {
		path, note = d[:i], d[i:]
	}
	toks := strings.Split(path, "/")
	if j := strings.Index(note, " vs "); j > 0 {
		note = " (changed)"
	}
	return toks[len(toks)-1] + note
}

// errClass maps an error text to a coarse class that survives rewording of names.
func errClass(e string) string {
	for _, k := range []string{"found unresolved ref", "is not supported", "MUST be an object", "failed to resolve", "disallowed external reference"} {
		if strings.Contains(e, k) {
			return k
		}
	}
	t := reasonTemplate(e)
	if len(t) > 32 {
		t = t[:32]
	}
	return t
}

func init() {
	core.Register(&core.Check{
		ID: "C16",
		Rule: "every C02 forest that must load (all kinds x positions x shapes incl. chains, diamonds, cycles, file-local refs inside external files, two files defining the same component name, one file under two spellings; x layouts x spellings x entry points), loaded with external references allowed; " +
			"InternalizeRefs + json.Marshal, then: every $ref is internal, the bytes reload with external references disallowed, Validate verdicts agree, and the reloaded document expanded through its references (depth 4, reference names erased) equals the original's at paths and at every original component. non-trivial = the forest has a file besides the root",
		Assumptions: []string{
			"equivalence is structural equality of the reference-erased expansions to depth 4 (cycles cut at the same depth on both sides)",
			"default RefNameResolver; documents that fail to load are C02's business and are skipped here",
			"request/response verdict equality is implied by expansion equality (validators only look at resolved values) and is not driven separately",
		},
		Bounds:        func(tier string) map[string]any { return map[string]any{"files": 3, "expansion_depth": 4} },
		MinOutcomes:   2,
		ShrinkVectors: true,
		DevBound: func(tier string) int {
			if tier == "thorough" {
				return 1
			}
			return 0
		},
		CapSeconds: func(tier string) int {
			if tier == "thorough" {
				return 1500
			}
			return 300
		},
		Body: func(r *core.Run, x *explore.X) {
			f := GenForest(x, r.Tier == "thorough")
			order := x.Deviate(2)
			if !r.Own(x) {
				return
			}
			if f.Entry == "Data" {
				return // no location: external references cannot be spelled relative to it
			}
			f = f.Build()
			if f.Expect != "ok" {
				return
			}
			sig := f.Signature()
			// the kind and the graph shape are part of a violation's identity: shrinking stays within them
			site := " [kind=" + f.Kind + " shape=" + f.Shape + "]"
			if f.Shape == "same-path-tail-under-two-ancestors" {
				// which ancestor the two files share depends on where the root sits: the layout is part of the site
				site = " [kind=" + f.Kind + " shape=" + f.Shape + " layout=" + f.Layout + "]"
			}
			var res LoadResult
			r.Exec(order)
			if !r.Guard(x, "Load", map[string]any{"forest": f.Describe()}, func() { res = LoadForest(f, true, nil) }) {
				return
			}
			if res.Err != nil {
				r.Outcome("load-error(skipped)")
				return
			}
			r.Case(fmt.Sprintf("%s|%d", sig, order), f.External)
			if r.WantSample(x) {
				r.Sample(x, f.Describe())
			}
			detail := map[string]any{"forest": f.Describe()}
			origValid := res.Doc.Validate(context.Background()) == nil
			before := eraseRefs(generic(ExpandImpl(res.Doc, 4)))
			var out []byte
			r.Exec(order)
			if !r.Guard(x, "InternalizeRefs", detail, func() {
				res.Doc.InternalizeRefs(context.Background(), nil)
				var err error
				out, err = json.Marshal(res.Doc)
				if err != nil {
					panic("marshal after internalize: " + err.Error())
				}
			}) {
				r.Outcome("panic")
				return
			}
			r.Max("max_steps_observed", r.Steps())
			r.Validated(1)
			var raw any
			json.Unmarshal(out, &raw)
			var refs []string
			refStrings(raw, &refs)
			for _, rs := range refs {
				if !strings.HasPrefix(rs, "#/components/") {
					d := cloneJSON(detail).(map[string]any)
					d["external_ref_left"] = rs
					r.Fail(x, "self-contained"+site, sig, d)
					r.Outcome("external-ref-left")
					return
				}
			}
			l := openapi3.NewLoader()
			doc2, err := l.LoadFromData(out)
			if err != nil {
				d := cloneJSON(detail).(map[string]any)
				d["reload_error"] = err.Error()
				r.Fail(x, "reloads-without-external-refs:"+errClass(err.Error())+site, sig, d)
				r.Outcome("reload-error")
				return
			}
			newValid := doc2.Validate(context.Background()) == nil
			if newValid != origValid {
				d := cloneJSON(detail).(map[string]any)
				d["original_valid"], d["internalised_valid"] = origValid, newValid
				if e := doc2.Validate(context.Background()); e != nil {
					d["internalised_error"] = e.Error()
				}
				cl := "same-validation-verdict"
				if e, ok := d["internalised_error"].(string); ok {
					cl += ":" + errClass(e)
				}
				r.Fail(x, cl+site, sig, d)
			}
			after := eraseRefs(generic(ExpandImpl(doc2, 4)))
			bm, _ := before.(map[string]any)
			am, _ := after.(map[string]any)
			var diffs []string
			for _, k := range sortedKeys(bm) {
				if k == "components" {
					bc, _ := bm[k].(map[string]any)
					ac, _ := am[k].(map[string]any)
					for _, sec := range sortedKeys(bc) {
						bs, _ := bc[sec].(map[string]any)
						as, _ := ac[sec].(map[string]any)
						for _, name := range sortedKeys(bs) {
							for _, d := range DiffJSONCut(bs[name], as[name], 3) {
								diffs = append(diffs, "/components/"+sec+"/"+name+d)
							}
						}
					}
					continue
				}
				for _, d := range DiffJSONCut(bm[k], am[k], 4) {
					diffs = append(diffs, "/"+k+d)
				}
			}
			if len(diffs) > 0 {
				d := cloneJSON(detail).(map[string]any)
				if len(diffs) > 6 {
					diffs = diffs[:6]
				}
				d["diff(original vs internalised)"] = diffs
				r.Fail(x, "references-resolve-to-equal-content:"+diffClass(diffs[0])+site, sig, d)
				r.Outcome("content-differs")
				return
			}
			r.Outcome(fmt.Sprintf("equivalent valid=%v", origValid))
		},
	})
}
