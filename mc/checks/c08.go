package checks

import (
	"bytes"
	"context"
	"encoding/json"
	"fmt"
	"io"
	"net/http"

	"github.com/getkin/kin-openapi/openapi3"
	"github.com/getkin/kin-openapi/openapi3filter"
	"github.com/getkin/kin-openapi/routers"

	"verifmc/core"
	"verifmc/explore"
	"verifmc/ref"
)

var c08Keys = []string{"200", "2XX", "404", "4XX", "default"}
var c08Statuses = []int{200, 201, 204, 301, 304, 307, 308, 400, 404, 500, 99, 600}
var c08Bodies = []string{"valid", "other-entry-marker", "with-writeOnly", "with-readOnly", "wrong-type", "none", "malformed-json", "without-marker", "without-required-readOnly"}
var c08ContentTypes = []string{"application/json", "application/json; charset=utf-8", "text/plain", ""}

type c08Case struct {
	keys             []string
	status           int
	head             bool
	hdrReq, hdrOpt   bool // declared headers
	optObj           bool // the optional header is an object with explode:true (default style) instead of an integer array
	withContent      bool
	reqVal, optVal   int // 0 absent, 1 valid, 2 invalid
	ct               string
	body             string
	inclStatus       bool
	exBody, exWO, me bool
	// history: before the response is validated, a request body was validated against the very same schema object (as
	// happens when one component schema serves the request and the response)
	priorRequest bool
}

func (c c08Case) sig() string {
	return fmt.Sprintf("responses=%v status=%d head=%v headers{required:%v,optional:%v%s} content=%v response{X-Req:%d,X-Opt:%d,type=%q,body=%s} IncludeResponseStatus=%v ExcludeResponseBody=%v ExcludeWriteOnlyValidations=%v MultiError=%v after-request-on-same-schema=%v",
		c.keys, c.status, c.head, c.hdrReq, c.hdrOpt, map[bool]string{false: "", true: "(exploded object)"}[c.optObj], c.withContent, c.reqVal, c.optVal, c.ct, c.body, c.inclStatus, c.exBody, c.exWO, c.me, c.priorRequest)
}

func c08BodySchema(marker string) map[string]any {
	return m("type", "object", "properties", m("k", m("type", "string", "enum", l(marker)), "w", m("type", "string", "writeOnly", true), "w2", m("type", "string", "writeOnly", true), "r", m("type", "string", "readOnly", true), "r2", m("type", "string", "readOnly", true), "n", m("type", "integer")),
		// a required readOnly property first (a response must carry it, a request need not), then the marker between two required
		// writeOnly properties (which a response need not and must not carry)
		"required", l("r2", "w", "k", "w2"))
}

func (c c08Case) document() map[string]any {
	resps := m()
	for _, k := range c.keys {
		def := m("description", "d")
		hs := m()
		if c.hdrReq {
			hs["X-Req"] = m("required", true, "schema", m("type", "integer"))
		}
		if c.hdrOpt {
			hs["X-Opt"] = m("schema", m("type", "array", "items", m("type", "integer")))
			if c.optObj {
				hs["X-Opt"] = m("explode", true, "schema", m("type", "object", "properties", m("R", m("type", "integer"), "G", m("type", "integer")), "required", l("R")))
			}
		}
		if c.hdrReq && c.hdrOpt {
			hs["Content-Type"] = m("required", true, "schema", m("type", "integer")) // must be ignored
		}
		if len(hs) > 0 {
			def["headers"] = hs
		}
		if c.withContent {
			def["content"] = m("application/json", m("schema", c08BodySchema(k)))
		}
		resps[k] = def
	}
	return m("openapi", "3.0.3", "info", m("title", "t", "version", "1"), "paths", m("/r", m("get", m("responses", resps), "head", m("responses", cloneJSON(resps)))))
}

type c08Doc struct {
	doc  *openapi3.T
	json []byte
}

// documents are loaded once per shape and shared by the executions of a worker (validation must not modify them: C15's frame condition)
var c08Docs = map[string]c08Doc{}

// every subset of 1..3 response keys
var c08KeySets = func() [][]string {
	var out [][]string
	for mask := 1; mask < 1<<len(c08Keys); mask++ {
		var ks []string
		for i, k := range c08Keys {
			if mask&(1<<i) != 0 {
				ks = append(ks, k)
			}
		}
		if len(ks) <= 3 {
			out = append(out, ks)
		}
	}
	return out
}()

func init() {
	core.Register(&core.Check{
		ID: "C08",
		Rule: "responses maps: every non-empty subset of <=3 keys of {200, 2XX, 404, 4XX, default}, each definition accepting only a body that carries its own key x status in {200,201,204,301,304,307,308,400,404,500,99,600} x GET/HEAD x declared headers {required integer, optional integer array, a Content-Type entry} x header values absent/valid/invalid " +
			"x content declared or not x response Content-Type {json, json+charset, text/plain, absent} x body {valid, another entry's marker, with a writeOnly property, with a readOnly property, wrong type, none} x IncludeResponseStatus x ExcludeResponseBody x ExcludeWriteOnlyValidations x MultiError x (for three bodies) a request body validated against the very same schema object beforehand. " +
			"Model: status selection (exact, class, default), header presence/validity, content selection, evaluator in response reading; afterwards the body must still be readable in full. non-trivial = a definition is selected and the response is checked",
		Assumptions: []string{
			"selection model mc/ref/content.go SelectStatus/SelectContent; evaluator in response reading (writeOnly forbidden and not required, readOnly allowed); ExcludeWriteOnlyValidations lifts only the presence rule",
			"a Content-Type entry in the declared headers is ignored (OpenAPI 3.0.3 Response Object)",
			"HEAD requests and 301/304/307/308 are never checked",
		},
		Bounds:        func(tier string) map[string]any { return map[string]any{"response_keys": 3, "statuses": len(c08Statuses), "option_sets": 16} },
		MinOutcomes:   3,
		ShrinkVectors: true,
		Body: func(r *core.Run, x *explore.X) {
			var c c08Case
			c.keys = explore.Pick(x, c08KeySets)
			c.status = explore.Pick(x, c08Statuses)
			c.hdrReq, c.hdrOpt = x.Bool(), x.Bool()
			c.withContent = !x.Bool()
			if c.hdrReq {
				c.reqVal = x.Choose(3)
			}
			if c.hdrOpt {
				c.optObj = x.Bool()
				if c.reqVal == 2 && r.Tier != "thorough" {
					c.optVal = x.Choose(2)
				} else {
					c.optVal = x.Choose(3)
				}
			}
			c.body = explore.Pick(x, c08Bodies)
			if r.Tier == "thorough" {
				c.ct = explore.Pick(x, c08ContentTypes)
				c.head = x.Bool()
				c.inclStatus, c.exBody, c.exWO, c.me = x.Bool(), x.Bool(), x.Bool(), x.Bool()
			} else {
				// quick tier: the content types only with the valid body, and at most one non-default option at a time
				c.ct = "application/json"
				if c.body == "valid" {
					c.ct = explore.Pick(x, c08ContentTypes)
				}
				switch x.Choose(6) {
				case 1:
					c.head = true
				case 2:
					c.inclStatus = true
				case 3:
					c.exBody = true
				case 4:
					c.exWO = true
				case 5:
					c.me = true
				}
			}
			if (c.body == "without-required-readOnly" || c.body == "without-marker" || c.body == "valid") && !c.hdrReq && !c.hdrOpt && c.withContent {
				c.priorRequest = x.Bool() // (every such execution loads a document of its own: kept to the header-free cases)
			}
			if !r.Own(x) {
				return
			}
			sel, declared := ref.SelectStatus(c.keys, c.status)
			other := ""
			for _, k := range c.keys {
				if k != sel {
					other = k
				}
			}
			if c.body == "other-entry-marker" && (other == "" || !declared) {
				return
			}
			dk := fmt.Sprint(c.keys, c.hdrReq, c.hdrOpt, c.optObj, c.withContent)
			ent, okc := c08Docs[dk]
			if c.priorRequest {
				okc = false // a document of its own: the earlier validation must not reach other executions
			}
			if !okc {
				dj, _ := json.Marshal(c.document())
				d, err := openapi3.NewLoader().LoadFromData(dj)
				if err != nil {
					panic(err)
				}
				ent = c08Doc{d, dj}
				if !c.priorRequest {
					c08Docs[dk] = ent
				}
			}
			doc, docJSON := ent.doc, ent.json
			sig := c.sig()
			pi := doc.Paths.Find("/r")
			method, op := "GET", pi.Get
			if c.head {
				method, op = "HEAD", pi.Head
			}
			route := &routers.Route{Spec: doc, Path: "/r", PathItem: pi, Method: method, Operation: op}
			req, _ := http.NewRequest(method, "http://h.example/r", nil)
			hdr := http.Header{}
			if c.ct != "" {
				hdr.Set("Content-Type", c.ct)
			}
			switch c.reqVal {
			case 1:
				hdr.Set("X-Req", "7")
			case 2:
				hdr.Set("X-Req", "zz")
			}
			switch c.optVal {
			case 1:
				hdr.Set("X-Opt", "1,2")
				if c.optObj {
					hdr.Set("X-Opt", "R=1,G=2")
				}
			case 2:
				hdr.Set("X-Opt", "a,b")
				if c.optObj {
					hdr.Set("X-Opt", "R,1,G,2") // the spelling of explode:false
				}
			}
			var bodyVal map[string]any
			switch c.body {
			case "valid":
				bodyVal = m("k", sel)
			case "other-entry-marker":
				bodyVal = m("k", other)
			case "with-writeOnly":
				bodyVal = m("k", sel, "w", "x")
			case "with-readOnly":
				bodyVal = m("k", sel, "r", "x")
			case "wrong-type":
				bodyVal = m("k", sel, "n", "x")
			case "without-marker":
				bodyVal = m("n", 1.0) // the required marker is missing (as are the required writeOnly properties, legitimately)
			case "without-required-readOnly":
				bodyVal = m("k", sel)
			}
			if bodyVal != nil && c.body != "without-required-readOnly" {
				bodyVal["r2"] = "ro" // the required readOnly property
			}
			var bodyBytes []byte
			if bodyVal != nil {
				bodyBytes, _ = json.Marshal(bodyVal)
			}
			if c.body == "malformed-json" {
				bodyBytes = []byte(`{"k":"` + sel + `",`)
			}
			if c.priorRequest {
				// every response definition's schema first serves a request body (valid as a request: no readOnly property, the writeOnly ones present)
				for _, k := range c.keys {
					if rr := op.Responses.Value(k); rr != nil && rr.Value != nil {
						if mt := rr.Value.Content.Get("application/json"); mt != nil && mt.Schema != nil && mt.Schema.Value != nil {
							_ = mt.Schema.Value.VisitJSON(map[string]any{"k": k, "w": "x", "w2": "y"}, openapi3.VisitAsRequest())
						}
					}
				}
			}
			opts := &openapi3filter.Options{IncludeResponseStatus: c.inclStatus, ExcludeResponseBody: c.exBody, ExcludeWriteOnlyValidations: c.exWO, MultiError: c.me}
			in := &openapi3filter.ResponseValidationInput{
				RequestValidationInput: &openapi3filter.RequestValidationInput{Request: req, Route: route, Options: opts},
				Status:                 c.status, Header: hdr, Options: opts, Body: io.NopCloser(bytes.NewReader(bodyBytes)),
			}
			// model
			wantErr, why := false, "ok"
			checked := !(c.head || c.status == 301 || c.status == 304 || c.status == 307 || c.status == 308)
			switch {
			case !checked:
				why = "not-checked"
			case !declared:
				wantErr, why = c.inclStatus, "status-undeclared"
			default:
				if c.hdrReq && c.reqVal != 1 {
					wantErr, why = true, "required-header"
				}
				if c.hdrOpt && c.optVal == 2 {
					wantErr, why = true, "optional-header-invalid"
				}
				if !wantErr && !c.exBody && c.withContent {
					if _, ok := ref.SelectContent([]string{"application/json"}, c.ct); !ok {
						wantErr, why = true, "content-type-undeclared"
					} else if c.body == "malformed-json" {
						wantErr, why = true, "body-undecodable"
					} else if bodyVal == nil {
						wantErr, why = true, "body-missing" // empty bytes are not JSON
					} else {
						mode := ref.AsResponse
						if c.exWO {
							mode = ref.AsResponseNoWriteOnlyCheck
						}
						if ref.Valid(c08BodySchema(sel), bodyVal, mode) != ref.Accept {
							wantErr, why = true, "body-invalid"
						}
					}
				}
			}
			r.Case(sig, checked && declared)
			if r.WantSample(x) {
				r.Sample(x, map[string]any{"case": sig, "selected_definition": sel, "model": why, "body": string(bodyBytes)})
			}
			detail := map[string]any{"case": sig, "document": string(docJSON), "selected_definition_by_model": sel, "model": why, "body": string(bodyBytes), "headers": fmt.Sprint(hdr)}
			var verr error
			r.Exec(0)
			if !r.Guard(x, "ValidateResponse", detail, func() { verr = openapi3filter.ValidateResponse(context.Background(), in) }) {
				return
			}
			r.Validated(1)
			r.Outcome(fmt.Sprintf("model=%s rejected=%v", why, verr != nil))
			if (verr != nil) != wantErr {
				d := cloneDetailAny(detail)
				if verr != nil {
					d["error"] = verr.Error()
				}
				clause := "accepts-response-that-violates:" + why
				if !wantErr {
					clause = "rejects-conforming-response(model:" + why + ")"
				}
				r.Fail(x, clause, sig, d)
			}
			// the body stays readable
			var after []byte
			if in.Body != nil {
				after, _ = io.ReadAll(in.Body)
			}
			if !bytes.Equal(after, bodyBytes) {
				d := cloneDetailAny(detail)
				d["readable_afterwards"] = string(after)
				r.Fail(x, "response-body-not-readable-afterwards", sig, d)
			}
		},
	})
}
