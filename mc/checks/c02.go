package checks

import (
	"fmt"

	"verifmc/core"
	"verifmc/explore"
	"verifmc/ref"
)

const expandDepth = 3

// judgeLoad compares one load of a forest with the reference resolver. It returns (clause, detail) pairs.
func judgeLoad(f *Forest, res LoadResult) (clauses []string, details []map[string]any) {
	add := func(c string, d map[string]any) { clauses = append(clauses, c); details = append(details, d) }
	if f.Expect != "ok" {
		if res.Err == nil {
			add("bad-reference-must-fail:"+f.Expect+":"+f.Kind, map[string]any{"expected": "load error (" + f.Expect + ")", "observed": "load succeeded"})
		}
		return
	}
	if res.Err != nil {
		add("load-fails [kind="+f.Kind+" shape="+f.Shape+"]", map[string]any{"error": res.Err.Error()})
		return
	}
	want := ref.Expand(f.Files, f.RootLoc, f.Files[f.RootLoc], expandDepth)
	got := generic(ExpandImpl(res.Doc, expandDepth))
	if diffs := DiffJSON(got, want, 6); len(diffs) > 0 {
		clause := "resolves-to-designated-object"
		for _, d := range diffs {
			if len(d) > 7 && (contains2(d, "$error (only left)")) {
				clause = "every-ref-resolved"
			}
		}
		add(clause+" [kind="+f.Kind+" shape="+f.Shape+"]", map[string]any{"diff(loaded vs reference)": diffs})
	}
	return
}

func contains2(s, sub string) bool {
	for i := 0; i+len(sub) <= len(s); i++ {
		if s[i:i+len(sub)] == sub {
			return true
		}
	}
	return false
}

func init() {
	core.Register(&core.Check{
		ID: "C02",
		Rule: "forest = skeleton document with one reference of kind K planted at position P, pointing through graph shape S into files placed by layout L, the root->file edge spelled by spelling Y, loaded through entry point E; " +
			"the full product K(10) x positions(K) x shapes(K) x layouts(3) x spellings(4) x entries(4-5) is enumerated; the loaded document, expanded through its references to depth 3, must equal the raw JSON expanded by the reference resolver; " +
			"dangling / wrong-kind / pure-loop shapes must fail to load. Loader history {fresh, after a failed load of a broken edition of the document from a sibling location, after a load of the same document}: the verdict and the resolved document do not depend on it. non-trivial = the shape has at least one reference edge beyond the planted one or crosses a file boundary or must fail",
		Assumptions: []string{
			"reference resolver mc/ref/refs.go: RFC 3986 path resolution against the containing file + JSON pointer over raw JSON; chains followed to the first non-reference object",
			"files are served by an in-memory ReadFromURIFunc with filesystem path cleaning; external references are allowed",
			"the skeleton is in the library's marshalling normal form (checked at start-up: its own expansion equals the reference expansion)",
			"specification extensions (x-*) are opaque: references inside them are not references of the document",
		},
		Bounds: func(tier string) map[string]any {
			return map[string]any{"files": 3, "reference_edges": 4, "kinds": len(RefKinds), "shapes": len(forestShapes), "layouts": len(forestLayouts), "spellings": len(forestSpellings), "entries": 5, "expansion_depth": expandDepth}
		},
		MinOutcomes:   2,
		ShrinkVectors: true,
		DevBound: func(tier string) int {
			if tier == "thorough" {
				return 1
			}
			return 0
		},
		CapSeconds: func(tier string) int {
			if tier == "thorough" {
				return 2400
			}
			return 300
		},
		Body: func(r *core.Run, x *explore.X) {
			f := GenForest(x, r.Tier == "thorough")
			// the Loader's history: fresh, after a failed load of a broken edition of the document, after a load of the same document
			// (quick: at the placements that vary the entry point; thorough: everywhere)
			history := 0
			if r.Tier == "thorough" || f.Entry != "DataWithPath" || f.Layout != "flat" {
				history = x.Choose(3)
			}
			order := x.Deviate(2)
			if !r.Own(x) {
				return
			}
			f = f.Build()
			sig := f.Signature()
			if history != 0 {
				sig += fmt.Sprintf(" loader-history=%d", history)
			}
			r.Case(fmt.Sprintf("%s|%d", sig, order), f.External || f.Expect != "ok" || f.Shape != "internal")
			if r.WantSample(x) {
				r.Sample(x, f.Describe())
			}
			var res LoadResult
			r.Exec(order)
			if !r.Guard(x, "Load", map[string]any{"forest": f.Describe()}, func() { res = LoadForestAfter(f, true, nil, history) }) {
				r.Outcome("panic")
				return
			}
			r.Max("max_steps_observed", r.Steps())
			r.Validated(1)
			if res.Err != nil {
				r.Outcome("expect=" + f.Expect + " load=error")
			} else {
				r.Outcome("expect=" + f.Expect + " load=ok")
			}
			var clauses []string
			var details []map[string]any
			if !r.Guard(x, "Expand", map[string]any{"forest": f.Describe()}, func() { clauses, details = judgeLoad(f, res) }) {
				return
			}
			for i, c := range clauses {
				d := details[i]
				d["forest"] = f.Describe()
				r.Fail(x, c, sig, d)
			}
		},
	})
}
