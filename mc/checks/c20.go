package checks

import (
	"context"
	"encoding/json"
	"fmt"
	"net/url"
	"sort"
	"strings"

	"github.com/getkin/kin-openapi/openapi3"
	"github.com/oasdiff/yaml"

	"verifmc/core"
	"verifmc/explore"
)

// nodePaths lists the pointer of every JSON node of doc (objects, arrays and leaves), root excluded.
func nodePaths(doc any) [][]string {
	var out [][]string
	var rec func(n any, p []string)
	rec = func(n any, p []string) {
		if len(p) > 0 {
			out = append(out, append([]string{}, p...))
		}
		switch x := n.(type) {
		case map[string]any:
			for _, k := range sortedKeys(x) {
				rec(x[k], append(p, k))
			}
		case []any:
			for i, e := range x {
				rec(e, append(p, fmt.Sprint(i)))
			}
		}
	}
	rec(doc, nil)
	return out
}

func deleteAt(doc any, ptr []string) bool {
	if len(ptr) == 0 {
		return false
	}
	parent, ok := GetAt(doc, ptr[:len(ptr)-1])
	if !ok {
		return false
	}
	last := ptr[len(ptr)-1]
	switch p := parent.(type) {
	case map[string]any:
		delete(p, last)
		return true
	case []any:
		var idx int
		fmt.Sscanf(last, "%d", &idx)
		if idx < 0 || idx >= len(p) {
			return false
		}
		np := append(append([]any{}, p[:idx]...), p[idx+1:]...)
		return SetAt(doc, ptr[:len(ptr)-1], np)
	}
	return false
}

// replacement values of C20 (the $ref adversaries are added per kind below)
func c20Replacements() []any {
	return []any{
		nil, true, 0.0, "", "x", []any{}, map[string]any{}, []any{[]any{}}, -1.0, 1e300, []any{nil}, map[string]any{"": nil},
		map[string]any{"$ref": ""}, map[string]any{"$ref": "#"}, map[string]any{"$ref": "#/"}, map[string]any{"$ref": "#/components"},
		map[string]any{"$ref": "#/components/schemas"}, map[string]any{"$ref": "#/info"}, map[string]any{"$ref": "#/info/title"}, map[string]any{"$ref": "#/paths"},
		map[string]any{"$ref": "#/x-none"}, map[string]any{"$ref": "#/components/schemas/Item/properties/id/type/0"},
		map[string]any{"$ref": "#/components/schemas/Item"}, map[string]any{"$ref": "#/components/parameters/Trace"}, map[string]any{"$ref": "#/components/headers/Shared"},
		map[string]any{"$ref": "#/components/requestBodies/ItemBody"}, map[string]any{"$ref": "#/components/responses/NotFound"}, map[string]any{"$ref": "#/components/examples/ItemEx"},
		map[string]any{"$ref": "#/components/links/Self"}, map[string]any{"$ref": "#/components/callbacks/Event"}, map[string]any{"$ref": "#/components/securitySchemes/basicAuth"},
		map[string]any{"$ref": "#/components/x-pathItems/Items"}, map[string]any{"$ref": "#/paths/~1health"}, map[string]any{"$ref": "#/servers/0"}, map[string]any{"$ref": "#/tags"},
		map[string]any{"$ref": "missing.json"}, map[string]any{"$ref": "garbage.json"}, map[string]any{"$ref": "missing.json#/a"}, map[string]any{"$ref": "garbage.json#/a"},
		map[string]any{"$ref": "self.json"}, map[string]any{"$ref": "self.json#/components/schemas/Item"}, map[string]any{"$ref": "%zz"}, map[string]any{"$ref": "#/components/schemas/%zz"},
		map[string]any{"$ref": 1.0}, map[string]any{"$ref": nil}, map[string]any{"$ref": map[string]any{}},
		map[string]any{"$ref": "#/components/schemas/Cat/allOf/-1"}, map[string]any{"$ref": "#/components/schemas/Cat/allOf/99"}, map[string]any{"$ref": "#/components/schemas/Cat/allOf/x"},
		map[string]any{"$ref": "#/paths/~1items~1%7Bid%7D/parameters/-1"}, map[string]any{"$ref": "#/components/schemas/Limit/items"}, map[string]any{"$ref": "#/components/schemas/Alias/additionalProperties"},
		map[string]any{"$ref": "#/components/schemas/Item/additionalProperties"}, map[string]any{"$ref": "#/components/schemas/Item/properties/attrs/additionalProperties"},
		map[string]any{"$ref": "#/components/schemas/Item/x-none/a"}, map[string]any{"$ref": "#/components/schemas/Item/properties"}, map[string]any{"$ref": "#/components/schemas/Item/required/0"},
		map[string]any{"$ref": "#/paths/~1health/get/responses"}, map[string]any{"$ref": "#/paths/~1health/get/responses/200/description"}, map[string]any{"$ref": "#/components/callbacks/Event/%7B$request.body%23~1cb%7D"},
	}
}

// c20ChainEdges are the ways a schema can refer to the next one of a chain, once or twice.
var c20ChainEdges = []struct {
	name  string
	build func(next map[string]any, fan int) map[string]any
}{
	{"allOf", func(nx map[string]any, f int) map[string]any { return map[string]any{"allOf": c20Rep(nx, f)} }},
	{"anyOf", func(nx map[string]any, f int) map[string]any { return map[string]any{"anyOf": c20Rep(nx, f)} }},
	{"oneOf", func(nx map[string]any, f int) map[string]any { return map[string]any{"oneOf": c20Rep(nx, f)} }},
	{"properties", func(nx map[string]any, f int) map[string]any {
		ps := map[string]any{"a": nx}
		if f > 1 {
			ps["b"] = nx
		}
		return map[string]any{"type": "object", "properties": ps}
	}},
	{"items+not", func(nx map[string]any, f int) map[string]any {
		s := map[string]any{"type": "array", "items": nx}
		if f > 1 {
			s["not"] = nx
		}
		return s
	}},
	{"additionalProperties+allOf", func(nx map[string]any, f int) map[string]any {
		s := map[string]any{"type": "object", "additionalProperties": nx}
		if f > 1 {
			s["allOf"] = []any{nx}
		}
		return s
	}},
}

func c20Rep(v map[string]any, n int) []any {
	out := make([]any, n)
	for i := range out {
		out[i] = v
	}
	return out
}

// c20Slot is one place of an object kind that can hold a reference (OAS 3.0.3 grammar); build wraps the reference
// into the keys to set on the host object.
type c20Slot struct {
	name  string
	build func(ref map[string]any) map[string]any
}

func slot(name string, build func(ref map[string]any) map[string]any) c20Slot { return c20Slot{name, build} }

var c20SchemaContent = func(ref map[string]any) map[string]any {
	return map[string]any{"content": map[string]any{"application/json": map[string]any{"schema": ref}}}
}

var c20Slots = map[string][]c20Slot{
	"pathItem": {slot("parameters[]", func(r map[string]any) map[string]any { return map[string]any{"parameters": []any{r}} })},
	"operation": {
		slot("parameters[]", func(r map[string]any) map[string]any { return map[string]any{"parameters": []any{r}} }),
		slot("requestBody", func(r map[string]any) map[string]any { return map[string]any{"requestBody": r} }),
		slot("responses.200", func(r map[string]any) map[string]any { return map[string]any{"responses": map[string]any{"200": r}} }),
		slot("callbacks.cb", func(r map[string]any) map[string]any { return map[string]any{"callbacks": map[string]any{"cb": r}} }),
	},
	"callback": {slot("{expression}", func(r map[string]any) map[string]any { return map[string]any{"{$request.body#/again}": r} })},
	"parameter": {
		slot("schema", func(r map[string]any) map[string]any { return map[string]any{"schema": r} }),
		slot("examples.e", func(r map[string]any) map[string]any { return map[string]any{"examples": map[string]any{"e": r}} }),
	},
	"header": {
		slot("schema", func(r map[string]any) map[string]any { return map[string]any{"schema": r} }),
		slot("examples.e", func(r map[string]any) map[string]any { return map[string]any{"examples": map[string]any{"e": r}} }),
	},
	"requestBody": {slot("content.schema", c20SchemaContent)},
	"response": {
		slot("headers.h", func(r map[string]any) map[string]any { return map[string]any{"headers": map[string]any{"h": r}} }),
		slot("content.schema", c20SchemaContent),
		slot("links.l", func(r map[string]any) map[string]any { return map[string]any{"links": map[string]any{"l": r}} }),
	},
	"mediaType": {
		slot("schema", func(r map[string]any) map[string]any { return map[string]any{"schema": r} }),
		slot("examples.e", func(r map[string]any) map[string]any { return map[string]any{"examples": map[string]any{"e": r}} }),
		slot("encoding.p.headers.h", func(r map[string]any) map[string]any {
			return map[string]any{"encoding": map[string]any{"p": map[string]any{"headers": map[string]any{"h": r}}}}
		}),
	},
	"schema": {
		slot("items", func(r map[string]any) map[string]any { return map[string]any{"items": r} }),
		slot("not", func(r map[string]any) map[string]any { return map[string]any{"not": r} }),
		slot("additionalProperties", func(r map[string]any) map[string]any { return map[string]any{"additionalProperties": r} }),
		slot("properties.p", func(r map[string]any) map[string]any { return map[string]any{"properties": map[string]any{"p": r}} }),
		slot("allOf[]", func(r map[string]any) map[string]any { return map[string]any{"allOf": []any{r}} }),
		slot("anyOf[]", func(r map[string]any) map[string]any { return map[string]any{"anyOf": []any{r}} }),
		slot("oneOf[]", func(r map[string]any) map[string]any { return map[string]any{"oneOf": []any{r}} }),
		slot("allOf[]+default", func(r map[string]any) map[string]any { return map[string]any{"allOf": []any{r}, "default": 1.0} }),
		slot("items+example", func(r map[string]any) map[string]any { return map[string]any{"items": r, "example": []any{1.0}} }),
	},
}

// exerciseDoc runs everything the property lists on a loaded document.
func exerciseDoc(doc *openapi3.T) string {
	var verdict string
	if err := doc.Validate(context.Background()); err != nil {
		verdict = "invalid"
	} else {
		verdict = "valid"
	}
	_ = doc.Validate(context.Background(), openapi3.DisableExamplesValidation(), openapi3.EnableSchemaFormatValidation())
	if _, err := json.Marshal(doc); err != nil {
		verdict += "+json-marshal-error"
	}
	if _, err := yaml.Marshal(doc); err != nil {
		verdict += "+yaml-marshal-error"
	}
	doc.InternalizeRefs(context.Background(), nil)
	if _, err := json.Marshal(doc); err != nil {
		verdict += "+json-marshal-error-after-internalize"
	}
	return verdict
}

type c20Case struct {
	family string
	desc   string
	data   []byte
	yaml   bool
}

func init() {
	var sk map[string]any
	var skCompact []byte
	var paths [][]string
	var skYAML []byte
	var refPos map[string]bool
	var graftPos []Position
	graftAncestor := map[string]bool{}
	prep := func() {
		if sk != nil {
			return
		}
		sk = Skeleton()
		skCompact, _ = json.Marshal(sk)
		paths = nodePaths(sk)
		skYAML, _ = yaml.JSONToYAML(skCompact)
		refPos = map[string]bool{}
		for _, p := range Positions(sk) {
			refPos[p.String()] = true
			graftAncestor[PtrString(p.Ptr)] = true
		}
		for _, p := range PositionsAll(sk) {
			if len(c20Slots[p.Kind]) > 0 {
				graftPos = append(graftPos, p)
			}
		}
	}
	yamlTokens := []string{
		"a: &x [*x]\n", "a: &x {b: *x}\n", "? [1,2]\n: 3\n", "<<: *nope\n", "a: !!binary aGk=\n", "a: !!set {b, c}\n", "\ta: 1\n", "a: ~\n", "1: 2\n", "true: false\n",
		"openapi: 3.0.3\ninfo: &i {title: t, version: '1'}\npaths: {}\ncomponents:\n  schemas:\n    A: &a\n      type: object\n      properties:\n        a: *a\n",
		"openapi: 3.0.3\ninfo: {title: t, version: '1'}\npaths: {}\nx-a: &a [*a, *a]\n",
		"openapi: 3.0.3\ninfo: {title: t, version: '1'}\npaths:\n  <<: {/a: {get: {responses: {'200': {description: d}}}}}\n",
		"openapi: 3.0.3\ninfo: {title: t, version: '1'}\npaths: {}\ncomponents:\n  schemas:\n    A: {type: !!str object, properties: {1: {type: string}}}\n",
		"openapi: 3.0.3\ninfo: {title: t, version: '1'}\npaths: {}\ncomponents:\n  schemas:\n    A: {enum: [.inf, -.inf, .nan, 0x10, 1_000, 2001-01-01]}\n",
		"--- \n...\n---\na: 1\n", "\xff\xfe", "{", "[", "\"", "- - - - - - - - - - - - - - - - - - - - - - - - - - - - - - - - x\n",
	}
	core.Register(&core.Check{
		ID: "C20",
		Rule: "family node: the skeleton document with each JSON node (all ~1100) replaced by each of 46 replacement values (scalars, containers, 34 adversarial $ref forms incl. every wrong-kind component, pointers drilling through structs/maps/slices/scalars, missing/garbage/self files) or deleted; " +
			"family prefix: every byte prefix of the compact skeleton; family flip: every structural byte ({}[]:,\") replaced by each other structural byte (thorough) / every 7th (quick); family yaml: the node replacements rendered as YAML (thorough: all, quick: $ref adversaries only) and 25 YAML-only token documents; " +
			"family graft: at every object of the skeleton (all kinds incl. operations, media types, encodings) a reference to the object itself or to each of its referenceable ancestors is grafted into each reference slot of the object's kind (self-containing callbacks, schemas composed of themselves, headers pointing to the response they are in); family chain: acyclic chains of 8/24/48 component schemas, every level referring to the next once or twice through each edge type (shared sub-schemas must not be revisited per path), and rings of 4 and 5 schemas with a default; family forest: every C02 forest (all shapes incl. cycles and bad references). x entry point {LoadFromData, LoadFromDataWithPath} x external refs allowed/disallowed. After a successful load: Validate (two option sets), json.Marshal, yaml.Marshal, InternalizeRefs, json.Marshal. non-trivial = the mutated bytes still parse as JSON/YAML (the loader proper is reached)",
		Assumptions: []string{
			"termination is decided by the instrumented step budget (1e6 steps, 15x the largest terminating execution observed) and, for dependencies, by the 120 s per-execution watchdog",
			"a worker that dies (stack overflow, fatal error) is attributed to the choice vector it was executing",
			"the reader serves self.json (the document itself), garbage.json (non-JSON bytes) and nothing else",
		},
		Bounds:      func(tier string) map[string]any { return map[string]any{"mutations_per_document": 1, "replacement_values": len(c20Replacements())} },
		MinOutcomes: 3,
		ShrinkVectors: true,
		CapSeconds: func(tier string) int {
			if tier == "thorough" {
				return 1500
			}
			return 300
		},
		Body: func(r *core.Run, x *explore.X) {
			prep()
			thorough := r.Tier == "thorough"
			family := explore.Pick(x, []string{"node", "prefix", "flip", "yaml", "yamltok", "forest", "graft", "chain"})
			var c c20Case
			c.family = family
			var forest *Forest
			// choices first (cheap), construction after Own
			var pi, ri, n int
			switch family {
			case "node", "yaml":
				pi = x.Choose(len(paths))
				ri = x.Choose(len(c20Replacements()) + 1) // last = delete
			case "yamltok":
				ri = x.Choose(len(yamlTokens))
			case "prefix":
				n = x.Choose(len(skCompact))
			case "flip":
				n = x.Choose(len(skCompact))
				ri = x.Choose(7)
			case "forest":
				forest = GenForest(x, thorough)
			case "chain":
				pi = x.Choose(len(c20ChainEdges))
				ri = x.Choose(5) // depth 8, 24, 48; 3 and 4 closed into a ring (the last schema refers back to the first)
				n = x.Choose(2)  // fan-out 1, 2
			case "graft":
				pi = x.Choose(len(graftPos))
				ri = x.Choose(len(c20Slots[graftPos[pi].Kind]))
				n = x.Choose(len(graftPos[pi].Ptr) + 1) // the ancestor (by pointer length) the grafted reference points to
			}
			entry, allow := 0, false
			// quick: both entry points and both switch settings only where they can matter (external-looking references, forests)
			extRef := false
			if family == "node" || family == "yaml" {
				if ri < len(c20Replacements()) {
					if m, ok := c20Replacements()[ri].(map[string]any); ok {
						if rs, ok := m["$ref"].(string); ok && !strings.HasPrefix(rs, "#") {
							extRef = true
						}
					}
				}
			}
			if thorough || extRef || family == "forest" || family == "yamltok" {
				entry = x.Choose(2)
				allow = x.Bool()
			}
			order := 0
			if thorough {
				order = x.Deviate(2)
			}
			if !r.Own(x) {
				return
			}
			structural := []byte("{}[]:,\"")
			switch family {
			case "node", "yaml":
				if !thorough && ri < len(c20Replacements()) {
					// quick tier: the $ref adversaries at every reference position, and a fixed 1-in-8 slice of them at every other node;
					// the YAML rendering only for the $ref adversaries at reference positions
					isRefPos := refPos[PtrString(paths[pi])]
					if family == "yaml" && (ri < 12 || !isRefPos) {
						return
					}
					if family == "node" && ri >= 12 && !isRefPos && ri%8 != pi%8 {
						return
					}
				}
				doc := Skeleton()
				if ri == len(c20Replacements()) {
					deleteAt(doc, paths[pi])
					c.desc = "delete " + PtrString(paths[pi])
				} else {
					SetAt(doc, paths[pi], c20Replacements()[ri])
					c.desc = fmt.Sprintf("replace %s by %s", PtrString(paths[pi]), CanonJSON(c20Replacements()[ri]))
				}
				c.data, _ = json.Marshal(doc)
				if family == "yaml" {
					c.data, _ = yaml.JSONToYAML(c.data)
					c.yaml = true
				}
			case "yamltok":
				c.data = []byte(yamlTokens[ri])
				c.yaml = true
				c.desc = fmt.Sprintf("yaml-token-doc #%d", ri)
			case "prefix":
				c.data = skCompact[:n]
				c.desc = fmt.Sprintf("prefix of %d bytes", n)
			case "flip":
				b := skCompact[n]
				if strings.IndexByte(string(structural), b) < 0 || structural[ri] == b || (!thorough && n%7 != 0) {
					return
				}
				c.data = append([]byte{}, skCompact...)
				c.data[n] = structural[ri]
				c.desc = fmt.Sprintf("byte %d %q -> %q", n, b, structural[ri])
			case "forest":
				forest = forest.Build()
				c.data, _ = json.Marshal(forest.Files[forest.RootLoc])
				c.desc = "forest " + forest.Signature()
			case "chain":
				// an acyclic chain of component schemas, every level referring to the next one once or twice through one
				// edge type: shared sub-schemas must be visited once, not once per path (2^48 paths)
				depth := []int{8, 24, 48, 3, 4}[ri]
				ring := ri >= 3
				edge := c20ChainEdges[pi]
				schemas := map[string]any{}
				for i := 0; i <= depth; i++ {
					name := fmt.Sprintf("S%02d", i)
					if i == depth {
						schemas[name] = map[string]any{"type": "string"}
						if ring {
							// a ring of schemas referring to one another, with a default to be checked against it
							back := edge.build(map[string]any{"$ref": "#/components/schemas/S00"}, 1)
							back["default"] = "d"
							schemas[name] = back
						}
						continue
					}
					next := map[string]any{"$ref": fmt.Sprintf("#/components/schemas/S%02d", i+1)}
					schemas[name] = edge.build(next, n+1)
				}
				doc := map[string]any{"openapi": "3.0.3", "info": map[string]any{"title": "t", "version": "1"}, "paths": map[string]any{}, "components": map[string]any{"schemas": schemas}}
				c.desc = fmt.Sprintf("chain of %d schemas through %s, fan-out %d", depth, edge.name, n+1)
				if ring {
					c.desc = fmt.Sprintf("ring of %d schemas through %s, fan-out %d, with a default", depth+1, edge.name, n+1)
				}
				c.data, _ = json.Marshal(doc)
			case "graft":
				// a reference to the object itself or to one of its ancestors, grafted into one of the object's reference slots
				pos := graftPos[pi]
				anc := pos.Ptr[:n]
				if !graftAncestor[PtrString(anc)] {
					return
				}
				doc := Skeleton()
				hostAny, _ := GetAt(doc, pos.Ptr)
				host, ok := hostAny.(map[string]any)
				if !ok {
					return
				}
				if _, isRef := host["$ref"]; isRef {
					return
				}
				slot := c20Slots[pos.Kind][ri]
				target := "#" + PtrString(anc)
				for k, v := range slot.build(map[string]any{"$ref": target}) {
					host[k] = v
				}
				c.desc = fmt.Sprintf("graft %s -> %s into %s of %s", slot.name, target, pos.Kind, PtrString(pos.Ptr))
				c.data, _ = json.Marshal(doc)
			}
			_ = skYAML
			sig := fmt.Sprintf("%s: %s entry=%d allow=%v", family, c.desc, entry, allow)
			var parsed any
			parses := json.Unmarshal(c.data, &parsed) == nil
			if !parses && c.yaml {
				parses = yaml.Unmarshal(c.data, &parsed) == nil
			}
			r.Case(sig+fmt.Sprint(order), parses)
			if r.WantSample(x) {
				s := string(c.data)
				if len(s) > 300 {
					s = s[:300] + "..."
				}
				r.Sample(x, map[string]any{"case": sig, "bytes": s})
			}
			detail := map[string]any{"case": sig}
			if len(c.data) < 4000 {
				detail["bytes"] = string(c.data)
			}
			l := openapi3.NewLoader()
			l.IsExternalRefsAllowed = allow
			rootLoc := "/w/root.json"
			if forest != nil && !strings.HasPrefix(forest.RootLoc, "http") && forest.RootLoc != "" {
				rootLoc = forest.RootLoc
			}
			l.ReadFromURIFunc = func(_ *openapi3.Loader, u *url.URL) ([]byte, error) {
				key := readerKey(u)
				if forest != nil {
					for loc, d := range forest.Files {
						if sameLoc(strings.TrimPrefix(loc, "http://h.example"), key) {
							return json.Marshal(d)
						}
					}
				}
				switch {
				case strings.HasSuffix(key, "self.json") || key == rootLoc:
					return c.data, nil
				case strings.HasSuffix(key, "garbage.json"):
					return []byte("\x00\x01 not json {"), nil
				}
				return nil, fmt.Errorf("open %s: no such file", u)
			}
			var doc *openapi3.T
			var err error
			r.Exec(order)
			if !r.Guard(x, "Load", detail, func() {
				if entry == 0 {
					doc, err = l.LoadFromData(c.data)
				} else {
					doc, err = l.LoadFromDataWithPath(c.data, &url.URL{Path: rootLoc})
				}
			}) {
				r.Outcome("load-panic")
				return
			}
			r.Max("max_steps_observed", r.Steps())
			r.Validated(1)
			if err != nil || doc == nil {
				r.Outcome("load-error")
				return
			}
			verdict := ""
			r.Exec(order)
			if !r.Guard(x, "Validate/Marshal/InternalizeRefs", detail, func() { verdict = exerciseDoc(doc) }) {
				r.Outcome("post-load-panic")
				return
			}
			r.Max("max_steps_observed", r.Steps())
			r.Outcome("loaded+" + verdict)
		},
	})
	_ = sort.Strings
}
