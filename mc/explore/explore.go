// Package explore is the choice-point explorer shared by every check: a stateless depth-first
// enumeration of choice vectors with replay-by-prefix. A body written against X is the alphabet,
// its budget parameter the bound; every complete choice vector is one execution of the real code.
package explore

import (
	"fmt"
	"hash/fnv"
)

// Point is one recorded choice point of an execution.
type Point struct {
	C   int  // answer taken
	N   int  // number of alternatives offered
	Dev bool // answers >0 cost one deviation
}

// X is one execution.
type X struct {
	prefix   []int
	trace    []Point
	devs     int
	devBound int
	shard    int
	nshards  int
	skipped  bool
	replay   bool // strict replay: no choice beyond prefix allowed to be anything but default
}

// Diverged is the panic value raised when a replayed prefix does not fit the body.
type Diverged struct{ Msg string }

func (d Diverged) Error() string { return "replay divergence: " + d.Msg }

// Choose returns an answer in 0..n-1. Alternative 0 is the default answer.
func (x *X) Choose(n int) int { return x.choose(n, false) }

// Deviate is Choose where every answer >0 costs one deviation against the bound of the run.
// When the bound is exhausted the default answer is returned and no alternative is offered.
func (x *X) Deviate(n int) int { return x.choose(n, true) }

func (x *X) choose(n int, dev bool) int {
	if n <= 0 {
		panic(fmt.Sprintf("explore: Choose(%d)", n))
	}
	i := len(x.trace)
	if dev && x.devs >= x.devBound {
		if i < len(x.prefix) && x.prefix[i] != 0 {
			panic(Diverged{fmt.Sprintf("point %d: deviation %d beyond bound", i, x.prefix[i])})
		}
		x.trace = append(x.trace, Point{0, 1, true})
		return 0
	}
	c := 0
	if i < len(x.prefix) {
		c = x.prefix[i]
		if c < 0 || c >= n {
			panic(Diverged{fmt.Sprintf("point %d: choice %d out of range %d", i, c, n)})
		}
	}
	if dev && c > 0 {
		x.devs++
	}
	x.trace = append(x.trace, Point{c, n, dev})
	return c
}

// Bool is Choose(2)==1.
func (x *X) Bool() bool { return x.Choose(2) == 1 }

// Pick chooses one element of opts.
func Pick[T any](x *X, opts []T) T { return opts[x.Choose(len(opts))] }

// Subset chooses a subset of opts (each element in or out), preserving order.
func Subset[T any](x *X, opts []T) []T {
	var out []T
	for _, o := range opts {
		if x.Bool() {
			out = append(out, o)
		}
	}
	return out
}

// Choices returns the choice vector taken so far.
func (x *X) Choices() []int {
	out := make([]int, len(x.trace))
	for i, p := range x.trace {
		out[i] = p.C
	}
	return out
}

// Deviations returns the number of deviations taken so far.
func (x *X) Deviations() int { return x.devs }

// Mine tells whether the subtree below the choices made so far belongs to this worker. A body
// calls it once, after generating the case and before running it; all executions that extend the
// same generation prefix share an owner, so sharding never splits a subtree of environment answers.
func (x *X) Mine() bool {
	if x.nshards <= 1 {
		return true
	}
	h := fnv.New64a()
	var b [4]byte
	for _, p := range x.trace {
		b[0], b[1], b[2], b[3] = byte(p.C), byte(p.C>>8), byte(p.C>>16), byte(p.C>>24)
		h.Write(b[:])
	}
	z := h.Sum64()
	z ^= z >> 33
	z *= 0xff51afd7ed558ccd
	z ^= z >> 33
	z *= 0xc4ceb9fe1a85ec53
	z ^= z >> 33
	mine := int(z%uint64(x.nshards)) == x.shard
	if !mine {
		x.skipped = true
	}
	return mine
}

// Stats are the exploration counters of one run.
type Stats struct {
	Executions  int64 // bodies run (including ones skipped as foreign shards)
	Owned       int64 // bodies run to completion by this worker
	Transitions int64 // choice-tree edges traversed (new choice points answered)
	MaxDepth    int
	MaxDevs     int
}

// Config bounds one run.
type Config struct {
	DevBound int
	Shard    int
	NShards  int
	// Stop is polled between executions; returning true ends the run early (cap hit).
	Stop func() bool
}

// Run explores every choice vector of body within the bounds. It returns the counters and whether
// the enumeration completed (false when Stop ended it).
func Run(cfg Config, body func(x *X)) (Stats, bool) {
	var st Stats
	var prefix []int
	for {
		if cfg.Stop != nil && cfg.Stop() {
			return st, false
		}
		x := &X{prefix: prefix, devBound: cfg.DevBound, shard: cfg.Shard, nshards: cfg.NShards}
		body(x)
		st.Executions++
		if !x.skipped {
			st.Owned++
		}
		if len(x.trace) < len(prefix) {
			panic(Diverged{fmt.Sprintf("body consumed %d of %d prefix choices", len(x.trace), len(prefix))})
		}
		newPts := len(x.trace) - len(prefix)
		if len(prefix) > 0 {
			newPts++ // the last prefix element is the alternative just taken
		}
		if !x.skipped {
			st.Transitions += int64(newPts) // edges traversed by executions this worker owns (foreign generation prefixes are not counted)
		}
		if len(x.trace) > st.MaxDepth {
			st.MaxDepth = len(x.trace)
		}
		if x.devs > st.MaxDevs {
			st.MaxDevs = x.devs
		}
		// odometer: advance the deepest point that still has an affordable alternative
		i := len(x.trace) - 1
		for ; i >= 0; i-- {
			p := x.trace[i]
			if p.C+1 >= p.N {
				continue
			}
			if p.Dev && p.C == 0 {
				// taking an alternative here costs one deviation: count those before i
				d := 0
				for _, q := range x.trace[:i] {
					if q.Dev && q.C > 0 {
						d++
					}
				}
				if d >= cfg.DevBound {
					continue
				}
			}
			break
		}
		if i < 0 {
			return st, true
		}
		np := make([]int, i+1)
		for j := 0; j < i; j++ {
			np[j] = x.trace[j].C
		}
		np[i] = x.trace[i].C + 1
		prefix = np
	}
}

// Replay runs body once on exactly the given choice vector (defaults beyond it).
func Replay(devBound int, vector []int, body func(x *X)) {
	x := &X{prefix: vector, devBound: devBound, nshards: 1}
	body(x)
	if len(x.trace) < len(vector) {
		panic(Diverged{fmt.Sprintf("body consumed %d of %d replayed choices", len(x.trace), len(vector))})
	}
}
